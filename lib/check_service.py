"""Checks for the server-side properties C01-C06: Coq theorems over the Service model,
correspondence model <-> implementation through h_service, and property oracles evaluated
directly on the implementation."""
import itertools
import json
import random

from common import *
from svcgen import *


def prep(ck, prop_file, need_model=True):
    """regenerate, prove, build. returns (model_ok, impl_ok)"""
    ref = regenerate(["WireGen.v"])
    for n, msg in ref:
        ck.tie_broken.append("translator refused %s: %s" % (n, msg))
    ck.props(prop_file)
    model_ok = False
    if need_model:
        ok, log = build_driver()
        model_ok = ok
        if not ok:
            ck.proof_broken.append("the executable model does not build against the regenerated sources:\n" +
                                   "\n".join(log.strip().splitlines()[-15:]))
    ok, log = build_harness(["h_service"])
    if not ok:
        ck.tie_broken.append("harness does not build against /repo: " + "\n".join(log.strip().splitlines()[-15:]))
    ck.trusted = ["Coq 8.16.1 kernel (coqc), vm_compute in Examples and computed facts",
                  "tr/wire.py (translator varlink/src/lib.rs -> gen/WireGen.v)",
                  "extraction (ExtrOcamlBasic directives only) + ml/driver.ml + OCaml 4.13",
                  "harness/src (scripted interface, careful feed caller, socket client)",
                  "modelled not verified: serde_json text grammar, serde-derive struct semantics, BufReader"]
    return model_ok, ok


def feed_line(cid, svc, chunks, op="feed"):
    return "%s %s %s | %s" % (cid, op, svc.tokens(), " ".join(hx(c) for c in chunks if c is not None))


def same_out(a, b):
    """reply byte streams equal up to the order of GetInfo's interface list (HashMap iteration order)"""
    return a == b or canon_reply_stream(a) == canon_reply_stream(b)


def same_feed(a, b):
    fa, fb = fields(a), fields(b)
    if "out" not in fa or "out" not in fb:
        return False
    if canon_reply_stream(unhx(fa["out"])) != canon_reply_stream(unhx(fb["out"])):
        # upgraded payload echo is not JSON: compare raw then
        if unhx(fa["out"]) != unhx(fb["out"]):
            return False
    return all(fa.get(k) == fb.get(k) for k in ("closed", "upg", "tail"))


def same_decode(a, b):
    """decode_request verdicts: same ok/err; same flags and method; parameters equal as JSON values"""
    if a.split(" ")[0] != b.split(" ")[0]:
        return False
    if not a.startswith("ok"):
        return True
    fa, fb = fields(a), fields(b)
    if any(fa.get(k) != fb.get(k) for k in ("more", "oneway", "upgrade", "method")):
        return False
    pa, pb = fa.get("params"), fb.get("params")
    if pa == pb:
        return True
    if "none" in (pa, pb):
        return False
    try:
        return loads(unhx(pa).decode("utf-8")) == loads(unhx(pb).decode("utf-8"))
    except Exception:
        return False


def run_both(ck, lines, model_ok, shards=8, what="feed"):
    impl = run_lines(harness_bin("h_service"), lines, shards=shards)
    model = run_lines(DRIVER, lines, shards=shards) if model_ok else {}
    return impl, model


def diff_model(ck, ids, impl, model, describe, same=same_feed, limit=5):
    n = 0
    for cid in ids:
        if cid not in model:
            continue
        if not same(impl[cid], model[cid]):
            n += 1
            if n <= limit:
                ck.tie_broken.append("model/implementation disagree on %s: impl=%s model=%s" %
                                     (describe(cid), impl[cid][:300], model[cid][:300]))
    return n


def out_of(res):
    return unhx(fields(res).get("out", "-"))


def shape_ok(frames_json, oneway):
    """zero or more continues replies then exactly one final reply. C01 states nothing about requests marked oneway
    (their silence is C04's subject), so they are not constrained here."""
    if oneway:
        return True
    if not frames_json:
        return False
    for f in frames_json[:-1]:
        if not (isinstance(f, dict) and f.get("continues") is True):
            return False
    last = frames_json[-1]
    return isinstance(last, dict) and last.get("continues") is not True


# ------------------------------------------------------------------
def gen_sequences(rng, tier, alphabet_kinds, flagset, exhaustive_len, n_random, max_len):
    seqs = []
    alpha = [(k, f) for k in alphabet_kinds for f in flagset]
    for L in range(1, exhaustive_len + 1):
        for combo in itertools.product(alpha, repeat=L):
            seqs.append(list(combo))
    allk = list(kinds().keys())
    for _ in range(n_random):
        L = rng.randint(1, max_len)
        seqs.append([(rng.choice(allk), rng.choice(list(ALL_FLAGS))) for _ in range(L)])
    return seqs


def build_reqs(seq, base=0):
    return [make(k, f, {"n": base + i}) for i, (k, f) in enumerate(seq)]


def singles_table(ck, svc, model_ok):
    """standalone behaviour of every (kind, flag) on the implementation"""
    lines, keys = [], []
    for k in kinds():
        for f in ALL_FLAGS:
            cid = "s_%s_%s" % (k, f)
            lines.append(feed_line(cid, svc, [stream_of([make(k, f, {"n": 0})])]))
            keys.append((cid, k, f))
    impl, model = run_both(ck, lines, model_ok, shards=4)
    return impl, model, keys


def c01(ck):
    rng = random.Random(ck.seed)
    model_ok, impl_ok = prep(ck, "C01.v")
    if not impl_ok:
        return
    svc = DEFAULT_SVC
    quick = ck.quick
    small = ["getinfo", "ok", "stream", "unknown_iface", "nodot", "badparam", "fail", "silent"]
    # "upgflag": the request carries upgrade:true but the method does not upgrade - the connection stays a varlink connection
    c01_flags = dict(FLAGS, upgflag={"upgrade": True})
    seqs = gen_sequences(rng, ck.tier, list(kinds().keys()), c01_flags, 1, 0, 0)
    seqs += gen_sequences(rng, ck.tier, CORE_KINDS, FLAGS, 2, 0, 0)
    seqs += gen_sequences(rng, ck.tier, small, c01_flags, 2 if quick else 3, 600 if quick else 6000, 40)
    lines, meta = [], {}
    for n, seq in enumerate(seqs):
        if any(k == "upgrade" for k, _ in seq):
            continue
        reqs = build_reqs(seq)
        depth = rng.randint(1, len(reqs))
        for mode, chunks in (("whole", [stream_of(reqs)]), ("d%d" % depth, group_chunks(reqs, depth))):
            if mode != "whole" and len(reqs) == 1:
                continue
            cid = "q%d_%s" % (n, mode)
            lines.append(feed_line(cid, svc, chunks))
            meta[cid] = (seq, reqs, mode)
    # every request alone (for the in-order oracle on the implementation itself)
    single_lines, single_ids = [], {}
    for cid, (seq, reqs, mode) in meta.items():
        if mode != "whole":
            continue
        for i, r in enumerate(reqs):
            key = json.dumps(r, sort_keys=True)
            if key not in single_ids:
                sid = "one%d" % len(single_ids)
                single_ids[key] = sid
                single_lines.append(feed_line(sid, svc, [enc(r)]))
    # the same sequences with a writer that takes only a few bytes per write() call (legal for any io::Write, and what
    # a socket does under pressure): the reply bytes must be the same
    short_lines, short_meta = [], {}
    whole_ids = [c for c in meta if meta[c][2] == "whole"]
    for j, cid in enumerate(whole_ids[:(150 if quick else 1500)]):
        k = (1, 7, 48)[j % 3]
        sid = "sw%d" % j
        short_meta[sid] = (cid, k)
        short_lines.append("%s feedw %d %s | %s" % (sid, k, svc.tokens(), hx(stream_of(meta[cid][1]))))
    short = run_lines(harness_bin("h_service"), short_lines, shards=8)
    impl, model = run_both(ck, lines + single_lines, model_ok, shards=12)
    for sid, (cid, k) in short_meta.items():
        ck.case("shortwrite|%s|%d" % (meta[cid][0], k))
        ck.count("short_writer")
        if "out=" not in short[sid] or "out=" not in impl[cid] or not same_out(out_of(short[sid]), out_of(impl[cid])):
            ck.failures.append({"what": "with a writer that accepts at most %d bytes per write() call the reply stream is not the one written to an unlimited writer "
                                        "(replies truncated / glued together)" % k, "sequence": ["%s/%s" % kf for kf in meta[cid][0]],
                                "short_writer": short[sid][:300], "unlimited": impl[cid][:300]})
    ck.rule = ("request sequences over %d request kinds x flags {-,more,oneway}: every single request, every pair over the %d core kinds, "
               "every sequence up to length %d over 8 kinds, random sequences to length 40; each fed whole and at a random pipelining depth "
               "through VarlinkService::handle with the documented tail protocol, plus a sample through varlink::listen on a unix socket; "
               "non-trivial = sequence of >= 2 requests; distinct by request-kind sequence + mode") % (
                   len(kinds()), len(CORE_KINDS), 2 if quick else 3)
    diff_model(ck, list(meta), impl, model, lambda c: "sequence %s (%s)" % (meta[c][0], meta[c][2]))
    diff_model(ck, list(single_ids.values()), impl, model, lambda c: "single request " + c)
    # property oracle on the implementation alone
    for cid, (seq, reqs, mode) in meta.items():
        ck.case("%s|%s" % (seq, mode), nontrivial=len(seq) >= 2,
                sample={"sequence": ["%s/%s" % kf for kf in seq], "mode": mode} if len(seq) in (3, 7) else None)
        ck.count("len=%d" % min(len(seq), 10))
        for k, f in seq:
            ck.count("kind=" + k)
        res = impl[cid]
        if res.startswith("PANIC") or "out=" not in res:
            ck.failures.append({"what": "handler panicked or produced no result", "sequence": seq, "result": res,
                                "chunks": [c.hex() for c in (group_chunks(reqs, 1))]})
            continue
        got = canon_reply_stream(out_of(res))
        expect = []
        closed_at = None
        for i, r in enumerate(reqs):
            sres = impl[single_ids[json.dumps(r, sort_keys=True)]]
            sf = fields(sres)
            grp = canon_reply_stream(unhx(sf.get("out", "-")))
            if sf.get("closed") != "1" and seq[i][0] not in SHAPELESS and not shape_ok(grp, r.get("oneway") is True):
                ck.failures.append({"what": "reply group of a request served alone is not continues* final",
                                    "request": r, "replies": grp})
            expect += grp
            if sf.get("closed") == "1":
                closed_at = i
                break
        f = fields(res)
        if got != expect:
            ck.failures.append({"what": "pipelined reply stream differs from the in-order concatenation of the replies each request gets alone",
                                "sequence": ["%s/%s" % kf for kf in seq], "mode": mode, "stream_hex": stream_of(reqs).hex(),
                                "got": got, "expected": expect})
        elif closed_at is None and f.get("closed") == "1":
            ck.failures.append({"what": "connection closed although no request closes it alone", "sequence": seq})
        elif closed_at is not None and f.get("closed") != "1":
            ck.failures.append({"what": "requests after a closing request were skipped but the connection stayed open",
                                "sequence": seq, "closed_at": closed_at})
    # sockets
    sock_lines, smeta = [], {}
    pool = [m for m in meta.values() if m[2] == "whole" and len(m[0]) >= 2]
    rng.shuffle(pool)
    for n, (seq, reqs, _) in enumerate(pool[:(150 if quick else 1500)]):
        depth = rng.randint(1, len(reqs))
        cid = "sock%d" % n
        sock_lines.append("%s listen %d %s | %s" % (cid, rng.choice([0, 0, 200, 1500]), svc.tokens(),
                                                    " ".join(hx(c) for c in group_chunks(reqs, depth))))
        smeta[cid] = (seq, reqs, depth)
    simpl = run_lines(harness_bin("h_service"), sock_lines, shards=4, timeout=900)
    wl = [feed_line(c, svc, [stream_of(smeta[c][1])]) for c in smeta]
    swhole = run_lines(harness_bin("h_service"), wl, shards=4)
    smodel = run_lines(DRIVER, wl, shards=4) if model_ok else {}
    for cid, (seq, reqs, depth) in smeta.items():
        ck.case("sock|%s|%d" % (seq, depth), sample=None)
        ck.count("socket_cases")
        a = canon_reply_stream(out_of(simpl[cid]))
        b = canon_reply_stream(out_of(swhole[cid]))
        if a != b or "timeout=1" in simpl[cid]:
            ck.failures.append({"what": "reply stream over a listen() socket differs from the in-memory handler",
                                "sequence": ["%s/%s" % kf for kf in seq], "depth": depth, "socket": simpl[cid][:400], "memory": swhole[cid][:400]})
        if cid in smodel and canon_reply_stream(out_of(smodel[cid])) != a:
            ck.tie_broken.append("model/implementation disagree over a socket on %s" % (seq,))


def c04(ck):
    rng = random.Random(ck.seed)
    model_ok, impl_ok = prep(ck, "C04.v")
    if not impl_ok:
        return
    svc = DEFAULT_SVC
    quick = ck.quick
    ow_flags = {"oneway": ALL_FLAGS["oneway"], "more+oneway": ALL_FLAGS["more+oneway"], "oneway+upgflag": ALL_FLAGS["oneway+upgflag"],
                "oneway+falses": ALL_FLAGS["oneway+falses"]}
    lines, meta = [], {}
    # every kind alone with oneway
    for k in kinds():
        if k == "upgrade":
            continue
        for f in ow_flags:
            cid = "a_%s_%s" % (k, f)
            lines.append(feed_line(cid, svc, [enc(make(k, f, {"n": 1}))]))
            meta[cid] = ([(k, f)], [0])
    # oneway at every position of short sequences
    ctx = ["getinfo", "ok", "stream", "unknown_method", "nodot", "descr_a"]
    n = 0
    for L in (2, 3):
        for pos in range(L):
            for k in kinds():
                if k == "upgrade":
                    continue
                for _ in range(2 if quick else 12):
                    seq = [(rng.choice(ctx), rng.choice(["-", "more"])) for _ in range(L)]
                    seq[pos] = (k, rng.choice(list(ow_flags)))
                    cid = "p%d" % n
                    n += 1
                    meta[cid] = (seq, [pos])
    for _ in range(300 if quick else 5000):
        L = rng.randint(2, 12)
        seq, pos = [], []
        for i in range(L):
            if rng.random() < 0.4:
                seq.append((rng.choice([k for k in kinds() if k != "upgrade"]), rng.choice(list(ow_flags))))
                pos.append(i)
            else:
                seq.append((rng.choice(ctx), rng.choice(["-", "more"])))
        cid = "r%d" % n
        n += 1
        meta[cid] = (seq, pos)
    extra = []
    for cid, (seq, pos) in meta.items():
        reqs = build_reqs(seq)
        if not cid.startswith("a_"):
            lines.append(feed_line(cid, svc, [stream_of(reqs)]))
        # the same sequence with its oneway requests deleted
        rest = [r for i, r in enumerate(reqs) if i not in pos]
        extra.append(feed_line(cid + "_without", svc, [stream_of(rest)]))
        for i in pos:
            extra.append(feed_line("%s_only%d" % (cid, i), svc, [enc(reqs[i])]))
    # a oneway call of a method that upgrades the connection: no reply either (the scripted method marks the call upgraded, then replies)
    up_ids = []
    for f_ in ow_flags:
        uid = "up_%s" % f_
        extra.append(feed_line(uid, svc, [enc(make("upgrade", f_, {"n": 1}))]))
        up_ids.append((uid, f_))
    # the member spelled out as false is not oneway: answered exactly like the same request without the member
    of_pairs = []
    for k in kinds():
        if k == "upgrade":
            continue
        for base_f, false_f in (("-", "oneway_false"),):
            a_id, b_id = "of_%s_plain" % k, "of_%s_false" % k
            extra.append(feed_line(a_id, svc, [enc(make(k, base_f, {"n": 1}))]))
            extra.append(feed_line(b_id, svc, [enc(make(k, false_f, {"n": 1}))]))
            of_pairs.append((k, a_id, b_id))
    impl, model = run_both(ck, lines + extra, model_ok, shards=12)
    for uid, f_ in up_ids:
        ck.case("oneway-upgrade|" + f_)
        ck.count("oneway_kind=upgrade")
        if "out=" not in impl[uid] or out_of(impl[uid]) != b"":
            ck.failures.append({"what": "a oneway request was answered (method that upgrades the connection)", "request": make("upgrade", f_, {"n": 1}),
                                "result": impl[uid][:300]})
    for k, a_id, b_id in of_pairs:
        ck.case("oneway-false|" + k)
        ck.count("oneway_false_kinds")
        if "out=" not in impl[a_id] or "out=" not in impl[b_id] or not same_out(out_of(impl[a_id]), out_of(impl[b_id])):
            ck.failures.append({"what": "a request that spells out \"oneway\": false is not answered like the same request without the member",
                                "request": make(k, "oneway_false", {"n": 1}), "with_member": impl[b_id][:300], "without_member": impl[a_id][:300]})
    ck.rule = ("every request kind (%d) with oneway / more+oneway alone; oneway at every position of sequences of length 2-3 for every kind; "
               "random sequences to length 12 with 40%% oneway requests; through handle() in memory and a sample through listen(); "
               "non-trivial = oneway request with neighbours; distinct by kind sequence") % (len(kinds()) - 1)
    diff_model(ck, list(meta), impl, model, lambda c: "sequence %s" % (meta[c][0],))
    for cid, (seq, pos) in meta.items():
        ck.case(str(seq), nontrivial=len(seq) >= 2,
                sample={"sequence": ["%s/%s" % kf for kf in seq], "oneway_at": pos} if len(seq) == 3 else None)
        for i in pos:
            ck.count("oneway_kind=" + seq[i][0])
        res = impl[cid]
        if "out=" not in res:
            ck.failures.append({"what": "no result / panic", "sequence": seq, "result": res})
            continue
        reqs = build_reqs(seq)
        closes = False
        for i in pos:
            o = impl["%s_only%d" % (cid, i)]
            if out_of(o) != b"":
                ck.failures.append({"what": "a oneway request was answered", "request": reqs[i],
                                    "stream_hex": enc(reqs[i]).hex(), "reply_bytes": out_of(o).decode("utf-8", "replace")})
            if fields(o).get("closed") == "1":
                closes = True
        if not closes:
            a = canon_reply_stream(out_of(res))
            bb = canon_reply_stream(out_of(impl[cid + "_without"]))
            if a != bb:
                ck.failures.append({"what": "reply stream is not aligned with the non-oneway requests",
                                    "sequence": ["%s/%s" % kf for kf in seq], "stream_hex": stream_of(reqs).hex(),
                                    "with_oneway": a, "without_oneway": bb})
    # sockets
    pool = [c for c in meta if len(meta[c][0]) >= 2]
    rng.shuffle(pool)
    sl = []
    for cid in pool[:(100 if quick else 1000)]:
        reqs = build_reqs(meta[cid][0])
        sl.append("%s listen 0 %s | %s" % (cid, svc.tokens(), " ".join(hx(enc(r)) for r in reqs)))
    simpl = run_lines(harness_bin("h_service"), sl, shards=4, timeout=900)
    for cid in simpl:
        ck.case("sock" + str(meta[cid][0]))
        ck.count("socket_cases")
        if canon_reply_stream(out_of(simpl[cid])) != canon_reply_stream(out_of(impl[cid])):
            ck.failures.append({"what": "socket reply stream differs from in-memory (oneway sequence)", "sequence": meta[cid][0],
                                "socket": simpl[cid][:300], "memory": impl[cid][:300]})


def c04_full(ck):
    c04(ck)
    import check_client
    check_client.c04_client(ck)


def streams_for_c02(rng, quick):
    """(name, service, byte stream) list"""
    svc = DEFAULT_SVC
    out = []
    base = [["getinfo/-", "ok/-"], ["stream/more", "nodot/-", "ok/oneway", "fail/-"], ["ok/-", "badparam/-", "ok/-"],
            ["descr_a/-", "unknown_iface/more", "silent/-", "stream/more"], ["ok/-", "crash/-", "ok/-"]]
    for i, names in enumerate(base):
        seq = [tuple(x.split("/")) for x in names]
        out.append(("base%d" % i, svc, stream_of(build_reqs(seq))))
    for i in range(6 if quick else 40):
        L = rng.randint(1, 6)
        seq = [(rng.choice([k for k in kinds() if k != "upgrade"]), rng.choice(list(ALL_FLAGS))) for _ in range(L)]
        s = stream_of(build_reqs(seq))
        if rng.random() < 0.5:
            s += b'{"method":"org.exa'  # trailing incomplete message
        out.append(("rand%d" % i, svc, s))
    # upgrade followed by arbitrary payload (with NULs)
    for i in range(3 if quick else 12):
        pre = build_reqs([("ok", "-")] * rng.randint(0, 2)) + [make("upgrade", "-", {"u": i})]
        payload = bytes(rng.randrange(256) for _ in range(rng.choice([0, 1, 7, 40, 300])))
        out.append(("upg%d" % i, svc, stream_of(pre) + payload))
    # messages larger than the 8 KiB buffers
    for i, size in enumerate([8191, 8192, 8193, 20000] if quick else [8190, 8191, 8192, 8193, 16384, 16385, 40000]):
        big = make("ok", "-", {"pad": "x" * size})
        out.append(("big%d" % i, svc, stream_of([make("ok", "-", 1), big, make("getinfo", "-", 2)])))
        if i % 2 == 0:
            out.append(("bigupg%d" % i, svc, stream_of([make("upgrade", "-", 1)]) + b"P" * size + b"\0tail"))
    # a message whose terminating NUL is exactly the last byte of a block of handle()'s internal buffer (8192, 16384),
    # with more requests behind it
    for k in (1, 2):
        base = len(enc(make("ok", "-", {"pad": ""})))
        first = make("ok", "-", {"pad": "x" * (8192 * k - base)})
        assert len(enc(first)) == 8192 * k
        out.append(("edge%d" % k, svc, stream_of([first, make("getinfo", "-", 1), make("ok", "-", 2)])))
        out.append(("edgeupg%d" % k, svc, stream_of([first, make("upgrade", "-", 1)]) + b"payload right behind\0the upgrade"))
    return out


def c02(ck):
    rng = random.Random(ck.seed)
    model_ok, impl_ok = prep(ck, "C02.v")
    if not impl_ok:
        return
    quick = ck.quick
    streams = streams_for_c02(rng, quick)
    lines, meta = [], {}
    n = 0
    for name, svc, s in streams:
        cutsets = []
        if len(s) <= 400:
            cutsets += [[c] for c in range(1, len(s))]                       # every single cut
            if len(s) <= (60 if quick else 140):
                cutsets += [[a, b] for a in range(1, len(s)) for b in range(a + 1, len(s))]   # every pair
            cutsets.append(list(range(1, len(s))))                             # one byte at a time
        else:
            for c in (1, 8191, 8192, 8193, len(s) - 1, len(s) // 2):
                cutsets.append([c])
            if len(s) <= 20000 and not quick:
                cutsets.append(list(range(1, len(s))))
        nuls = [i for i, x in enumerate(s) if x == 0]
        for z in nuls[:6]:
            cutsets += [[z], [z + 1], [z, z + 1]]
        for _ in range(4 if quick else 30):
            k = rng.randint(2, 9)
            cutsets.append(sorted(rng.sample(range(1, len(s)), min(k, len(s) - 1))) if len(s) > 2 else [1])
        meta["w_" + name] = (name, s, [])
        lines.append(feed_line("w_" + name, svc, [s]))
        for cs in cutsets:
            cs = sorted(set(c for c in cs if 0 < c < len(s)))
            cid = "c%d" % n
            n += 1
            meta[cid] = (name, s, cs)
            lines.append(feed_line(cid, svc, cuts_to_chunks(s, cs)))
            # the reference caller of test.rs / ping: transient slices, only the returned tail is kept
            lines.append(feed_line("k" + cid, svc, cuts_to_chunks(s, cs), op="feedcap"))
        lines.append(feed_line("kw_" + name, svc, [s], op="feedcap"))
    impl, model = run_both(ck, lines, model_ok, shards=14)
    ck.rule = ("byte streams from request sequences (incl. trailing incomplete message, upgrade + arbitrary payload, messages of 8191..40000 bytes) x "
               "segmentations: every single cut and every pair of cuts for short streams, byte-at-a-time, cuts around each NUL and around 8192, random k-cuts; "
               "fed through handle() with the documented tail protocol; socket: the segmentation is the sender's write/delay schedule; "
               "non-trivial = at least one cut; distinct by (stream, cut set)")
    diff_model(ck, list(meta), impl, model, lambda c: "stream %s cuts %s" % (meta[c][0], meta[c][2][:6]))
    for cid, (name, s, cs) in meta.items():
        ck.case("%s|%s" % (name, cs), nontrivial=bool(cs),
                sample={"stream": name, "length": len(s), "cuts": cs[:8]} if len(cs) == 2 and len(ck.samples) < 4 else None)
        ck.count("cuts=%s" % (len(cs) if len(cs) < 4 else "many"))
        if any(s[c - 1] == 0 or (c < len(s) and s[c] == 0) for c in cs):
            ck.count("cut_adjacent_to_NUL")
        whole = impl["w_" + name]
        res = impl[cid]
        if "out=" not in res or "out=" not in whole:
            ck.failures.append({"what": "no result / panic", "stream": name, "cuts": cs, "result": res})
            continue
        fa, fw = fields(res), fields(whole)
        if any(fa.get(k) != fw.get(k) for k in ("closed", "upg", "tail")) or not same_out(unhx(fa.get("out")), unhx(fw.get("out"))):
            ck.failures.append({"what": "feeding the stream in chunks differs from feeding it whole",
                                "stream_hex": s.hex() if len(s) < 600 else name, "cuts": cs,
                                "chunked": {k: fa.get(k) for k in ("out", "closed", "upg", "tail")},
                                "whole": {k: fw.get(k) for k in ("out", "closed", "upg", "tail")}})
        if fa.get("closed") == "0" and fa.get("upg") == "none":
            want = s[s.rfind(b"\0") + 1:]
            if unhx(fa.get("tail", "-")) != want:
                ck.failures.append({"what": "returned tail is not the bytes after the last complete message",
                                    "stream": name, "cuts": cs, "tail": fa.get("tail"), "expected": want.hex()})
    # the slice caller: same replies, same tail, upgraded payload complete - except in the known class
    # SliceCallerBeyondBlock (decided on the input by the block-buffer model, or from stream length if the model is
    # unavailable), where it must still behave exactly as that model says
    slice_ids = ["k" + c for c in meta if not c.startswith("w_")] + ["kw_" + name for name, _, _ in streams]
    diff_model(ck, slice_ids, impl, model, lambda c: "slice caller, stream %s cuts %s" % (
        (meta[c[1:]][0], meta[c[1:]][2][:6]) if c[1:] in meta else (c[3:], [])))
    for kid in slice_ids:
        name, s, cs = meta[kid[1:]] if kid[1:] in meta else (kid[3:], dict((n, x) for n, _, x in streams)[kid[3:]], [])
        ck.case("slice|%s|%s" % (name, cs), nontrivial=True)
        ck.count("slice_caller")
        res, whole = impl[kid], impl["w_" + name]
        if "out=" not in res:
            ck.failures.append({"what": "no result / panic (slice caller)", "stream": name, "cuts": cs, "result": res})
            continue
        fa, fw = fields(res), fields(whole)
        differs = any(fa.get(k) != fw.get(k) for k in ("closed", "upg", "tail")) or not same_out(unhx(fa.get("out")), unhx(fw.get("out")))
        if not differs:
            continue
        uid = kid[1:] if kid[1:] in meta else "w_" + name
        if kid in model and uid in model:
            in_class = not same_feed(model[kid], model[uid])
        else:
            in_class = len(s) > 8192 and (name.startswith("upg") or name.startswith("bigupg"))
        if in_class:
            ck.known_class("SliceCallerBeyondBlock")
            ck.count("known_class=SliceCallerBeyondBlock")
        else:
            ck.failures.append({"what": "a caller that hands handle() transient slices and keeps the returned tail gets a different "
                                        "result than feeding the stream whole (bytes lost, duplicated or reordered)",
                                "stream_hex": s.hex() if len(s) < 600 else name, "cuts": cs,
                                "slice_caller": {k: fa.get(k) if len(fa.get(k, "")) < 400 else fa.get(k)[:400] + ".." for k in ("out", "closed", "upg", "tail")},
                                "whole": {k: fw.get(k) if len(fw.get(k, "")) < 400 else fw.get(k)[:400] + ".." for k in ("out", "closed", "upg", "tail")}})
    # upgraded handler receives exactly the suffix (echo handler): checked on whole + chunked above through `out`;
    # explicit oracle here:
    for name, svc, s in streams:
        if name.startswith("upg") or name.startswith("bigupg"):
            whole = impl["w_" + name]
            o = out_of(whole)
            idx = s.find(b'"u","r"]')
            end = s.find(b"\0", idx) + 1
            payload = s[end:]
            if not o.endswith(payload) or (payload and o.count(payload) != 1 and len(payload) > 8):
                ck.failures.append({"what": "upgraded handler did not receive exactly the bytes after the upgrade request",
                                    "stream": name, "payload_len": len(payload), "out_tail": o[-60:].hex()})
    # sockets
    sl, smeta = [], {}
    for name, svc, s in streams:
        for j in range(2 if quick else 8):
            k = rng.randint(1, 6)
            cs = sorted(rng.sample(range(1, len(s)), min(k, len(s) - 1))) if len(s) > 2 else []
            if name.startswith("upg") or name.startswith("bigupg"):
                idx = s.find(b"\0", s.find(b'"u","r"]')) + 1
                cs = sorted(set(cs + ([idx + 3] if j == 0 and idx + 3 < len(s) else [])))
            cid = "s_%s_%d" % (name, j)
            smeta[cid] = (name, s, cs)
            sl.append("%s listen %d %s | %s" % (cid, rng.choice([0, 300, 3000]), svc.tokens(),
                                                " ".join(hx(c) for c in cuts_to_chunks(s, cs))))
    # an upgraded handler that returns to the server after every unit it has read (listen() then re-enters handle()
    # with whatever tail it kept): payload partly in the segment of the upgrade request, the rest in later segments
    for name, svc, s in streams:
        if not (name.startswith("upg") or name.startswith("bigupg")):
            continue
        idx = s.find(b"\0", s.find(b'"u","r"]')) + 1
        rest = len(s) - idx
        if rest < 4:
            continue
        variants = [[idx + 1, idx + 2, idx + 3], [idx, idx + rest // 2], [idx + rest // 3, idx + 2 * rest // 3], []]
        for j, cs in enumerate(variants):
            cs = sorted(set(c for c in cs if 0 < c < len(s)))
            cid = "u_%s_%d" % (name, j)
            smeta[cid] = (name, s, cs)
            sl.append("%s listenu %d %s | %s" % (cid, 4000, svc.tokens(), " ".join(hx(c) for c in cuts_to_chunks(s, cs))))
    c02_reference_caller(ck, quick, rng)
    c02_upgraded_unread(ck, quick, rng, svc)
    simpl = run_lines(harness_bin("h_service"), sl, shards=6, timeout=900)
    for cid, (name, s, cs) in smeta.items():
        ck.case("sock|%s|%s|%s" % (cid[0], name, cs))
        ck.count("socket_cases")
        if not same_out(out_of(simpl[cid]), out_of(impl["w_" + name])) or "timeout=1" in simpl[cid]:
            ck.failures.append({"what": "reply bytes over a listen() socket depend on the sender's segmentation / differ from in-memory",
                                "stream": name, "cuts": cs, "socket": simpl[cid][:300], "memory": impl["w_" + name][:300]})


def c02_upgraded_unread(ck, quick, rng, svc):
    """an upgraded handler that follows call_upgraded's contract to the letter: it consumes the complete records (lines) of
    the buffer it is shown and returns an incomplete last record as unread bytes, which handle() hands to the caller as
    the tail. Reply bytes, final tail and upgraded interface must not depend on where the stream was cut."""
    up = enc(req("org.example.a.Run", {"script": ["u", "r"], "tag": "up"}, upgrade=True))
    payloads = [b"alpha\nbravo\ncharlie\n", b"one\n\ntwo\nunfinished", b"x" * 40 + b"\n" + b"y" * 30 + b"\nzz"]
    lines, meta = [], {}
    n = 0
    for pi, pl in enumerate(payloads):
        s_ = enc(make("ok", "-", 0)) + up + pl      # (no GetInfo here: its interface list is in HashMap order, per instance)
        first = len(s_) - len(pl)
        cutsets = [[]] + [[c] for c in range(first, len(s_))] + [list(range(1, len(s_)))]
        for _ in range(10 if quick else 200):
            cutsets.append(sorted(rng.sample(range(1, len(s_)), rng.randint(2, 6))))
        for cs in cutsets:
            cid = "lu%d" % n
            n += 1
            lines.append(feed_line(cid, svc, cuts_to_chunks(s_, cs), op="feedl"))
            meta[cid] = (pi, cs)
    res = run_lines(harness_bin("h_service"), lines, shards=1, timeout=300)     # one process: the line mode is a process-wide switch
    whole = {}
    for cid, (pi, cs) in meta.items():
        if not cs:
            whole[pi] = res[cid]
    for cid, (pi, cs) in meta.items():
        ck.case("upgraded-unread|%d|%s" % (pi, cs))
        ck.count("upgraded_unread_cases")
        a, w = fields(res[cid]), fields(whole[pi])
        if "out" not in a or (a.get("out"), a.get("tail"), a.get("upg"), a.get("closed")) != (w.get("out"), w.get("tail"), w.get("upg"), w.get("closed")):
            ck.failures.append({"what": "with an upgraded handler that returns an incomplete record as unread bytes, reply bytes / tail depend on the segmentation",
                                "payload": payloads[pi].decode(), "cuts": cs[:12], "whole": whole[pi][:300], "segmented": res[cid][:300]})
            if len(ck.failures) > 30:
                break


def c02_reference_caller(ck, quick, rng):
    """the reference caller of the tail protocol that ships with the repository: examples/ping in multiplex mode.
    The same pipelined request stream is written one request per write, in a single write, in two writes and in random
    pieces; the replies must be the same, in order, each exactly once."""
    import socket
    import subprocess
    import time
    tgt = os.path.join(BUILD, "target-repo")
    with Lock("cargo-repo"):
        rc, log = sh(["cargo", "build", "--offline", "--quiet", "-p", "ping"], cwd=REPO, env=dict(ENV, CARGO_TARGET_DIR=tgt), timeout=1800)
    binp = os.path.join(tgt, "debug", "ping")
    if rc != 0 or not os.path.exists(binp):
        ck.tie_broken.append("examples/ping does not build: " + log[-300:])
        return
    os.makedirs(os.path.join(BUILD, "tmp"), exist_ok=True)
    path = os.path.join(BUILD, "tmp", "pingmux-%d.sock" % os.getpid())
    try:
        os.unlink(path)
    except OSError:
        pass
    srv = subprocess.Popen([binp, "--varlink=unix:" + path, "-m", "-t", "600"], stdout=subprocess.DEVNULL, stderr=subprocess.DEVNULL)
    try:
        t0 = time.time()
        while not os.path.exists(path) and time.time() - t0 < 10:
            time.sleep(0.02)
        nreq = 400
        reqs = [json.dumps({"method": "org.example.ping.Ping", "parameters": {"ping": "msg-%04d-%s" % (i, "x" * (i % 97))}}).encode() + b"\0" for i in range(nreq)]
        want = [{"parameters": {"pong": "msg-%04d-%s" % (i, "x" * (i % 97))}} for i in range(nreq)]
        whole = b"".join(reqs)

        def run(pieces, gap):
            # the example server writes its replies without buffering, so the client has to read while it sends
            import threading
            s = socket.socket(socket.AF_UNIX)
            s.connect(path)
            chunks, done = [], threading.Event()

            def reader():
                quiet = 0
                s.settimeout(0.4)
                deadline = time.time() + 30
                while time.time() < deadline:
                    try:
                        b = s.recv(1 << 16)
                        if not b:
                            break
                        chunks.append(b)
                        quiet = 0
                    except socket.timeout:
                        quiet += 1
                        if done.is_set() and (b"".join(chunks).count(b"\0") >= nreq or quiet > 8):
                            break
                    except OSError:
                        break
            th = threading.Thread(target=reader)
            th.start()
            try:
                for pc in pieces:
                    s.sendall(pc)
                    if gap:
                        time.sleep(gap)
            except OSError:
                pass
            done.set()
            th.join()
            s.close()
            got = []
            for fr in b"".join(chunks).split(b"\0")[:-1]:
                try:
                    got.append(json.loads(fr.decode("utf-8")))
                except Exception:
                    got.append({"__raw__": fr[:60].hex()})
            return got
        plans = [("one request per write", reqs, 0.0005), ("a single write", [whole], 0), ("two writes", [whole[:len(whole) // 2], whole[len(whole) // 2:]], 0.002),
                 ("cut at 8192 and 16384", [whole[:8192], whole[8192:16384], whole[16384:]], 0)]
        for _ in range(2 if quick else 8):
            cs = sorted(rng.sample(range(1, len(whole)), 5))
            plans.append(("random cuts %s" % cs, cuts_to_chunks(whole, cs), 0.001))
        for name, pieces, gap in plans:
            got = run(pieces, gap)
            ck.case("pingmux|" + name)
            ck.count("reference_caller_ping_multiplex")
            if got != want:
                first = next((i for i, (a, b) in enumerate(zip(got, want)) if a != b), min(len(got), len(want)))
                ck.failures.append({"what": "examples/ping in multiplex mode (the reference caller of handle()'s tail protocol): the replies depend on how the "
                                            "request stream is segmented", "segmentation": name, "requests": nreq, "replies": len(got), "first_difference_at": first,
                                    "got_there": got[first] if first < len(got) else None, "expected_there": want[first] if first < len(want) else None})
        # an upgraded session: what the client sends after the upgrade request reaches the upgraded handler in order, whether it
        # arrives in the same write as the request or later (each schedule waits for the echo of what it has sent so far)
        upq = json.dumps({"method": "org.example.ping.Upgrade", "upgrade": True}).encode() + b"\0"
        pq = json.dumps({"method": "org.example.ping.Ping", "parameters": {"ping": "a"}}).encode() + b"\0"
        lines_ = [b"first\n", b"second line\n", b"End\n"]
        want_up = b'{"parameters":{"pong":"a"}}\0{}\0' + b"".join(b"server reply: " + l for l in lines_)

        def run_up(steps):
            s = socket.socket(socket.AF_UNIX)
            s.connect(path)
            s.settimeout(0.3)
            got = b""
            for piece, wait_for in steps:
                if not piece:
                    time.sleep(0.3)
                    continue
                s.sendall(piece)
                t1 = time.time()
                while len(got) < wait_for and time.time() - t1 < 3:
                    try:
                        b_ = s.recv(65536)
                        if not b_:
                            break
                        got += b_
                    except socket.timeout:
                        pass
                    except OSError:
                        break
            s.close()
            return got
        l0 = len(b'{"parameters":{"pong":"a"}}\0{}\0')
        r1 = len(b"server reply: ") + len(lines_[0])
        schedules = [("request, then each line in its own write", [(pq + upq, l0), (lines_[0], l0 + r1), (lines_[1], l0 + r1 + 14 + len(lines_[1])), (lines_[2], len(want_up))]),
                     ("first line in the same write as the upgrade request", [(pq + upq + lines_[0], l0 + r1), (lines_[1] + lines_[2], len(want_up))]),
                     ("two lines in the same write as the upgrade request", [(pq + upq + lines_[0] + lines_[1], l0 + r1 + 14 + len(lines_[1])), (lines_[2], len(want_up))])]
        # ... and the session goes on after the handler has returned once (ping's returns after "End"): what the client sends
        # then reaches the handler's next round
        more_ = b"again\n" + b"End\n"
        want2 = want_up + b"server reply: again\nserver reply: End\n"
        schedules.append(("a second round after the handler returned", [(pq + upq, l0), (b"".join(lines_), len(want_up)), (b"", len(want_up)), (more_, len(want2))]))
        for name, steps in schedules:
            got = run_up(steps)
            if name.startswith("a second round"):
                want_here = want2
            else:
                want_here = want_up
            ck.case("pingmux-upgrade|" + name)
            ck.count("reference_caller_ping_multiplex_upgraded")
            if got != want_here:
                ck.failures.append({"what": "examples/ping in multiplex mode: the bytes of an upgraded session did not reach the upgraded handler in order "
                                            "(the echo depends on how the client's stream was segmented)", "schedule": name,
                                    "got": got.decode("utf-8", "replace")[:300], "expected": want_here.decode()[:300]})
    finally:
        srv.kill()
        srv.wait()
        try:
            os.unlink(path)
        except OSError:
            pass


def c13_reference_multiplex(ck):
    """examples/ping in multiplex mode serves several connections from one thread: what one connection receives must
    depend on its own traffic only, also when a neighbour misbehaves (garbage after a valid request, leaving unread)."""
    import socket
    import subprocess
    import time
    tgt = os.path.join(BUILD, "target-repo")
    with Lock("cargo-repo"):
        rc, log = sh(["cargo", "build", "--offline", "--quiet", "-p", "ping"], cwd=REPO, env=dict(ENV, CARGO_TARGET_DIR=tgt), timeout=1800)
    binp = os.path.join(tgt, "debug", "ping")
    if rc != 0 or not os.path.exists(binp):
        ck.tie_broken.append("examples/ping does not build: " + log[-300:])
        return
    path = os.path.join(BUILD, "tmp", "pingmux13-%d.sock" % os.getpid())
    os.makedirs(os.path.dirname(path), exist_ok=True)
    try:
        os.unlink(path)
    except OSError:
        pass
    srv = subprocess.Popen([binp, "--varlink=unix:" + path, "-m", "-t", "600"], stdout=subprocess.DEVNULL, stderr=subprocess.DEVNULL)

    def ping(tok):
        return json.dumps({"method": "org.example.ping.Ping", "parameters": {"ping": tok}}).encode() + b"\0"

    def conn():
        c = socket.socket(socket.AF_UNIX)
        c.connect(path)
        return c

    def read_quiet(c, wait=0.6):
        c.settimeout(wait)
        buf = b""
        try:
            while True:
                b = c.recv(65536)
                if not b:
                    break
                buf += b
        except (socket.timeout, OSError):
            pass
        return buf
    try:
        t0 = time.time()
        while not os.path.exists(path) and time.time() - t0 < 10:
            time.sleep(0.02)
        for variant in ("garbage after a valid request", "leaves without reading", "two neighbours", "two neighbours hang up in the same instant"):
            try:
                b = conn()
                a = conn()
                if variant == "two neighbours hang up in the same instant":
                    a2 = conn()
            except OSError as e:
                ck.case("pingmux13|" + variant)
                ck.failures.append({"what": "examples/ping in multiplex mode is gone (it no longer accepts connections) after its neighbours' traffic",
                                    "before_variant": variant, "server_exit": srv.poll(), "error": repr(e)})
                break
            if variant == "two neighbours hang up in the same instant":
                # connected before b's turn, both answered once, then both closed back to back: the server drops two
                # connections in one poll cycle
                for x_ in (a, a2):
                    x_.sendall(ping("N-token"))
                    read_quiet(x_, 0.2)
                a.close()
                a2.close()
                time.sleep(0.3)
            elif variant == "garbage after a valid request":
                a.sendall(ping("A-secret-token") + b"this is not json\0")
                read_quiet(a, 0.3)
            elif variant == "leaves without reading":
                a.sendall(ping("A-secret-token") * 50)
                a.close()
                time.sleep(0.2)
            else:
                a2 = conn()
                a.sendall(ping("A-secret-token") + b"{\0")
                time.sleep(0.2)
                a2.sendall(b"\0\0" + ping("A2-token"))
                read_quiet(a2, 0.3)
                a2.close()
                time.sleep(0.2)
            try:
                b.sendall(ping("B-token"))
                gotb = read_quiet(b)
                c = conn()
                c.sendall(ping("C-token"))
                gotc = read_quiet(c)
            except OSError as e:
                ck.case("pingmux13|" + variant)
                ck.failures.append({"what": "examples/ping in multiplex mode: a connection that only sent its own request was dropped (or the server died) "
                                            "because of what its neighbours did", "neighbour": variant, "server_exit": srv.poll(), "error": repr(e)})
                break
            for x in (a, b, c):
                try:
                    x.close()
                except OSError:
                    pass
                time.sleep(0.15)
            ck.case("pingmux13|" + variant)
            ck.count("reference_multiplex_neighbours")
            for who, got, tok in (("an idle connection that then sends a request", gotb, "B-token"), ("a fresh connection", gotc, "C-token")):
                want = json.dumps({"parameters": {"pong": tok}}, separators=(",", ":")).encode() + b"\0"
                if canon_reply_stream(got) != canon_reply_stream(want):
                    ck.failures.append({"what": "examples/ping in multiplex mode: %s received bytes that do not follow from its own traffic" % who,
                                        "neighbour": variant, "received": got.decode("utf-8", "replace")[:300], "expected": want.decode()})
    finally:
        srv.kill()
        srv.wait()
        try:
            os.unlink(path)
        except OSError:
            pass


def c13_reference_service(ck):
    """examples/example is the repository's own threaded service (varlink::listen, one shared handler object with a lock-protected
    counter): a peer that pipelines calls and never reads its replies must not keep its neighbours from being served."""
    import socket
    import subprocess
    import time
    tgt = os.path.join(BUILD, "target-repo")
    with Lock("cargo-repo"):
        rc, log = sh(["cargo", "build", "--offline", "--quiet", "-p", "example"], cwd=REPO, env=dict(ENV, CARGO_TARGET_DIR=tgt), timeout=1800)
    binp = os.path.join(tgt, "debug", "example")
    if rc != 0 or not os.path.exists(binp):
        ck.tie_broken.append("examples/example does not build: " + log[-300:])
        return
    path = os.path.join(BUILD, "tmp", "example13-%d.sock" % os.getpid())
    os.makedirs(os.path.dirname(path), exist_ok=True)
    try:
        os.unlink(path)
    except OSError:
        pass
    srv = subprocess.Popen([binp, "--varlink=unix:" + path], stdout=subprocess.DEVNULL, stderr=subprocess.DEVNULL)

    def rq(method, params=None):
        d = {"method": method}
        if params is not None:
            d["parameters"] = params
        return json.dumps(d).encode() + b"\0"

    def conn():
        c = socket.socket(socket.AF_UNIX)
        c.connect(path)
        return c

    def read_n(c, n, wait=8.0):
        c.settimeout(0.2)
        buf = b""
        t0 = time.time()
        while buf.count(b"\0") < n and time.time() - t0 < wait:
            try:
                b = c.recv(65536)
                if not b:
                    break
                buf += b
            except socket.timeout:
                pass
            except OSError:
                break
        return buf
    try:
        t0 = time.time()
        while not os.path.exists(path) and time.time() - t0 < 10:
            time.sleep(0.02)
        for variant, flood in (("pipelines Info calls and never reads", rq("org.example.network.Info", {"ifindex": 1})),
                               ("pipelines List calls and never reads", rq("org.example.network.List")),
                               ("pipelines GetInfo calls and never reads", rq("org.varlink.service.GetInfo"))):
            a = conn()
            a.setblocking(False)
            sent = 0
            t1 = time.time()
            idle = 0
            # write until the server stops taking bytes (its reply writes to us are blocked and so is its reading)
            while time.time() - t1 < 6 and idle < 15 and sent < 64 * 1024 * 1024:
                try:
                    sent += a.send(flood * 200)
                    idle = 0
                except BlockingIOError:
                    idle += 1
                    time.sleep(0.02)
                except OSError:
                    break
            b = conn()
            b.sendall(rq("org.example.network.Info", {"ifindex": 2}) + rq("org.example.network.List") + rq("org.example.network.Info", {"ifindex": 7}))
            gotb = read_n(b, 3)
            ck.case("example13|" + variant)
            ck.count("reference_service_neighbours")
            try:
                reps = canon_reply_stream(gotb)
            except Exception:
                reps = None
            ok = (reps is not None and len(reps) == 3 and reps[0].get("parameters", {}).get("info", {}).get("ifindex") == 2
                  and "netdevs" in (reps[1].get("parameters") or {}) and reps[2].get("error") == "org.example.network.UnknownNetworkIfIndex")
            if not ok:
                ck.failures.append({"what": "examples/example (varlink::listen, shared handler): a connection was not served its own three replies within 8 s while a neighbour "
                                            "had stopped reading its replies (a slow peer must not block another connection)",
                                    "neighbour": variant, "neighbour_bytes_sent": sent, "received": gotb.decode("utf-8", "replace")[:400]})
            for x in (a, b):
                try:
                    x.close()
                except OSError:
                    pass
    finally:
        srv.kill()
        srv.wait()
        try:
            os.unlink(path)
        except OSError:
            pass


NAME_POOL = ["a.b", "a.b.c", "a.bc", "a.b-c", "a.b.c1", "A.b", "a.B", "x-y.z", "a1.b2", "org.example.a", "org.example.ab",
             "org.example", "a.b.c.d", "a-b.c-d.e", "a.b.C"]


def c03(ck):
    rng = random.Random(ck.seed)
    model_ok, impl_ok = prep(ck, "C03.v")
    if not impl_ok:
        return
    quick = ck.quick
    services = [Service([])]
    for _ in range(8 if quick else 60):
        k = rng.randint(1, 6)
        names = rng.sample(NAME_POOL, k)
        services.append(Service([(n, "interface %s\n# %d\nmethod Run() -> ()\n" % (n, i), True) for i, n in enumerate(names)],
                                vendor=rng.choice(["v", "", "vendör \"q\""]), product=rng.choice(["p", "prod\\uct"]),
                                version=rng.choice(["1", "2.0-β"]), url=rng.choice(["http://x", ""])))
    # the same name registered more than once, adjacent and with other registrations in between: the last registration
    # serves the calls, and the name is still advertised once
    for pat in ([0, 1, 0], [0, 0], [0, 0, 1], [0, 1, 0, 1], [0, 1, 2, 0], [1, 0, 2, 0, 1, 0]):
        pool = rng.sample(NAME_POOL, 3)
        services.append(Service([(pool[x], "interface %s\n# registration %d\nmethod Run() -> ()\n" % (pool[x], i), True)
                                 for i, x in enumerate(pat)]))
    lines, meta = [], {}
    n = 0
    for svc in services:
        names = svc.names()
        methods = set()
        for nm in names + rng.sample(NAME_POOL, 3):
            methods.update([nm + ".Run", nm + ".Other", nm, nm + ".", "." + nm + ".Run", nm + "..Run", nm + ".x.Run",
                            nm[:-1] + ".Run", nm + "x.Run", nm.upper() + ".Run", nm.rsplit(".", 1)[0] + ".Run"])
        methods.update(["", ".", "..", "Run", ".Run", "Run.", "org.varlink.service.GetInfo", "org.varlink.service.Nope",
                        "org.varlink.service", "org.varlink.service.", "org.varlink.serviceX.GetInfo", "org.varlink.GetInfo"])
        if not quick:
            alpha = "ab.-"
            for L in range(1, 5):
                for t in itertools.product(alpha, repeat=L):
                    methods.add("".join(t))
        for m in sorted(methods):
            params = rng.choice([None, {"script": ["w"], "tag": n}, {"script": ["w"], "tag": {"deep": [1, "x", None, True, {"k": -5}]}},
                                 {"script": ["w"]}, {"script": ["w"], "tag": "é\n\"\\"}])
            fl = rng.choice([{}, {"more": True}, {"more": False}, {"upgrade": False}, {"oneway": False}, {}])
            r = req(m, params, **fl)
            cid = "m%d" % n
            n += 1
            meta[cid] = (svc, r)
            lines.append(feed_line(cid, svc, [enc(r)]))
        # the service interface
        for r in [req("org.varlink.service.GetInfo"), req("org.varlink.service.GetInfo", {"junk": 1}),
                  req("org.varlink.service.GetInterfaceDescription"),
                  req("org.varlink.service.GetInterfaceDescription", {"interface": "org.varlink.service"}),
                  req("org.varlink.service.GetInterfaceDescription", {"interface": "no.such"}),
                  req("org.varlink.service.GetInterfaceDescription", {"interface": ""}),
                  req("org.varlink.service.GetInterfaceDescription", {}),
                  req("org.varlink.service.GetInterfaceDescription", {"interface": None}),
                  req("org.varlink.service.GetInterfaceDescription", ["org.varlink.service"])] + \
                 [req("org.varlink.service.GetInterfaceDescription", {"interface": nm, "extra": 1}) for nm in names]:
            cid = "m%d" % n
            n += 1
            meta[cid] = (svc, r)
            lines.append(feed_line(cid, svc, [enc(r)]))
    impl, model = run_both(ck, lines, model_ok, shards=12)
    ck.rule = ("services with 0..6 registered scripted interfaces (names sharing prefixes, differing in the last element, hyphens/digits/upper case) x "
               "method strings (registered, unregistered, prefix/suffix variants, empty elements, leading/trailing dots, no dot%s) x parameter values; "
               "the interface replies with its own name and the request it received; non-trivial = all; distinct by (service, request)") % (
                   "" if quick else ", every string over {a,b,.,-} up to length 4")
    diff_model(ck, list(meta), impl, model, lambda c: "service %s request %s" % (meta[c][0].names(), json.dumps(meta[c][1])))
    for cid, (svc, r) in meta.items():
        ck.case(svc.tokens() + json.dumps(r, sort_keys=True),
                sample={"interfaces": svc.names(), "request": r} if len(ck.samples) < 5 and rng.random() < 0.01 else None)
        res = impl[cid]
        if "out=" not in res:
            ck.failures.append({"what": "no result / panic", "request": r, "result": res})
            continue
        out = canon_reply_stream(out_of(res))
        m = r["method"]
        names = svc.names()
        f = fields(res)
        if "." not in m:
            want_iface, kind = m, "notfound"
        else:
            i = m.rsplit(".", 1)[0]
            if i == "org.varlink.service":
                kind = "builtin"
            elif i in names:
                kind, want_iface = "registered", i
            else:
                kind, want_iface = "notfound", i
        ck.count("route=" + kind)
        if kind == "notfound":
            exp = [{"error": "org.varlink.service.InterfaceNotFound", "parameters": {"interface": want_iface}}]
            if out != exp:
                ck.failures.append({"what": "unregistered interface not answered with InterfaceNotFound naming it", "interfaces": names,
                                    "request": r, "got": out})
        elif kind == "registered":
            last = m.rsplit(".", 1)[1]
            if last == "Run" and isinstance(r.get("parameters"), dict) and r["parameters"].get("script") == ["w"]:
                exp_req = {k: v for k, v in r.items()}
                exp = [{"parameters": {"iface": want_iface, "req": exp_req}}]
                if out != exp:
                    ck.failures.append({"what": "call did not reach exactly the registered interface with flags and parameters unchanged",
                                        "interfaces": names, "request": r, "got": out})
            elif last != "Run":
                exp = [{"error": "org.varlink.service.MethodNotFound", "parameters": {"method": m}}]
                if out != exp:
                    ck.failures.append({"what": "unknown method not answered with MethodNotFound naming the full method",
                                        "request": r, "got": out})
        else:
            last = m.rsplit(".", 1)[1]
            p = r.get("parameters")
            if last == "GetInfo":
                exp_set = ["org.varlink.service"] + sorted(set(names))
                ok = (len(out) == 1 and isinstance(out[0].get("parameters"), dict)
                      and out[0]["parameters"].get("interfaces") == exp_set
                      and all(out[0]["parameters"].get(k) == v for k, v in
                              (("vendor", svc.vendor), ("product", svc.product), ("version", svc.version), ("url", svc.url)))
                      and "error" not in out[0])
                if not ok:
                    ck.failures.append({"what": "GetInfo does not return the configured strings / lists org.varlink.service first and every interface once",
                                        "interfaces": names, "got": out})
            elif last == "GetInterfaceDescription":
                if p is None:
                    exp = [{"error": "org.varlink.service.InvalidParameter", "parameters": {"parameter": "parameters"}}]
                    if out != exp:
                        ck.failures.append({"what": "GetInterfaceDescription without parameters not answered InvalidParameter", "got": out})
                elif isinstance(p, dict) and isinstance(p.get("interface"), str):
                    nm = p["interface"]
                    if nm in names:
                        d = [x[1] for x in svc.ifaces if x[0] == nm][-1]
                        exp = [{"parameters": {"description": d}}]
                    elif nm == "org.varlink.service":
                        exp = None
                        if not (len(out) == 1 and "interface org.varlink.service" in out[0].get("parameters", {}).get("description", "")):
                            ck.failures.append({"what": "own description not returned", "got": out})
                    else:
                        exp = [{"error": "org.varlink.service.InvalidParameter", "parameters": {"parameter": "interface"}}]
                    if exp is not None and out != exp:
                        ck.failures.append({"what": "GetInterfaceDescription answer wrong (verbatim text / InvalidParameter for unregistered)",
                                            "interfaces": names, "request": r, "got": out})
            else:
                exp = [{"error": "org.varlink.service.MethodNotFound", "parameters": {"method": m}}]
                if out != exp:
                    ck.failures.append({"what": "unknown built-in method not answered MethodNotFound", "request": r, "got": out})
    # routing does not depend on what was routed before on the same connection: every kind of method string, then a call
    # to a registered interface in the same input; the second request must reach exactly that interface
    l2, m2 = [], {}
    for si, svc in enumerate(services):
        names = svc.names()
        if not names:
            continue
        firsts = ["nodot", "", ".", names[0], names[0] + ".Nope", "no.such.Run", "org.varlink.service.GetInfo", "org.varlink.service.Nope",
                  "." + names[0] + ".Run", names[0] + "..Run", names[-1] + ".Run"]
        firsts = [(fm, {}) for fm in firsts] + [(names[0] + ".Run", {"upgrade": True}), (names[-1] + ".Run", {"upgrade": True, "more": True}),
                                                ("no.such.Run", {"upgrade": True}), ("org.varlink.service.GetInfo", {"upgrade": True})]
        for fi, (fm, ffl) in enumerate(firsts):
            tgt = names[(si + fi) % len(names)]
            r1 = req(fm, {"script": ["w"], "tag": "first"}, **ffl)
            r2 = req(tgt + ".Run", {"script": ["w"], "tag": {"second": fi}})
            cid = "p%d_%d" % (si, fi)
            m2[cid] = (svc, r1, r2, tgt)
            l2.append(feed_line(cid, svc, [enc(r1) + enc(r2)]))
    i2, mod2 = run_both(ck, l2, model_ok, shards=8)
    diff_model(ck, list(m2), i2, mod2, lambda c: "service %s requests %s then %s" % (m2[c][0].names(), m2[c][1]["method"], m2[c][2]["method"]))
    for cid, (svc, r1, r2, tgt) in m2.items():
        ck.case("pair|" + svc.tokens() + json.dumps([r1, r2], sort_keys=True))
        ck.count("route=second_of_two")
        res = i2[cid]
        if "out=" not in res:
            ck.failures.append({"what": "no result / panic", "requests": [r1, r2], "result": res})
            continue
        out = canon_reply_stream(out_of(res))
        want = {"parameters": {"iface": tgt, "req": dict(r2)}}
        if not out or out[-1] != want or fields(res).get("tail", "-") != "-":
            ck.failures.append({"what": "a call to a registered interface did not reach it (or was left unprocessed) after an earlier request on the same connection",
                                "interfaces": svc.names(), "first": r1, "second": r2, "got": out, "tail": fields(res).get("tail")})


def c05_server(ck, model_ok):
    rng = random.Random(ck.seed)
    svc = DEFAULT_SVC
    quick = ck.quick
    ops = ["c1", "c0", "r", "e"]
    scripts = []
    for L in range(0, 6 if quick else 8):
        scripts += [list(t) for t in itertools.product(ops, repeat=L)]
    lines, meta = [], {}
    n = 0
    for sc in scripts:
        for fname, fl in (("-", {}), ("more", {"more": True}), ("oneway", {"oneway": True}), ("more_false", {"more": False})):
            r = req("org.example.a.Run", {"script": sc, "tag": n}, **fl)
            cid = "k%d" % n
            n += 1
            meta[cid] = (sc, fname, r)
            lines.append(feed_line(cid, svc, [stream_of([r, make("ok", "-", "after")])]))
    impl, model = run_both(ck, lines, model_ok, shards=12)
    diff_model(ck, list(meta), impl, model, lambda c: "script %s flags %s" % (meta[c][0], meta[c][1]))
    for cid, (sc, fname, r) in meta.items():
        ck.case("%s|%s" % (sc, fname), nontrivial=len(sc) >= 1,
                sample={"script": sc, "flags": fname} if len(sc) == 4 and len(ck.samples) < 3 else None)
        ck.count("flags=" + fname)
        res = impl[cid]
        if "out=" not in res:
            ck.failures.append({"what": "no result / panic", "script": sc, "result": res})
            continue
        out = canon_reply_stream(out_of(res))
        more = r.get("more") is True
        oneway = r.get("oneway") is True
        # independent replay of the documented contract
        cont = False
        exp = []
        tripped = False
        for i, op in enumerate(sc):
            if op == "c1":
                cont = True
            elif op == "c0":
                cont = False
            else:
                if cont and not more:
                    tripped = True
                    break
                if oneway:
                    continue
                y = {}
                if cont:
                    y["continues"] = True
                if op == "e":
                    y["error"] = "org.example.a.Failed"
                    y["parameters"] = {"tag": r["parameters"]["tag"]}
                else:
                    y["parameters"] = {"i": i, "tag": r["parameters"]["tag"]}
                exp.append(y)
        for y in out:
            if isinstance(y, dict) and y.get("continues") is True and not more:
                ck.failures.append({"what": "a reply carrying continues=true was written for a request without more=true",
                                    "script": sc, "flags": fname, "stream_hex": enc(r).hex(), "got": out})
                break
        if tripped:
            ck.count("gate_tripped")
            if out != exp or fields(res).get("closed") != "1":
                ck.failures.append({"what": "continues without more must fail with an error and write nothing for that reply",
                                    "script": sc, "flags": fname, "got": out, "expected": exp, "closed": fields(res).get("closed")})
        else:
            after = [] if False else [{"parameters": {"i": 0, "tag": "after"}}]
            if out != exp + after:
                ck.failures.append({"what": "scripted replies differ from the documented reply contract", "script": sc, "flags": fname,
                                    "got": out, "expected": exp + after})


def mutate_streams(rng, quick):
    """systematic corruption of valid request streams: yields (label, stream bytes)"""
    base_reqs = [
        [make("getinfo", "-", 0)],
        [make("ok", "-", {"a": [1, 2, {"b": None}], "s": "é\"\\\n"}), make("stream", "more", 2)],
        [make("ok", "-", 1), make("descr_a", "-", 2), make("ok", "oneway", 3), make("fail", "-", 4)],
    ]
    out = []
    for bi, reqs in enumerate(base_reqs):
        s = stream_of(reqs)
        out.append(("valid%d" % bi, s))
        step = 1 if (not quick or len(s) < 120) else 3
        for t in range(0, len(s), step):
            out.append(("trunc%d@%d" % (bi, t), s[:t]))
        positions = range(0, len(s), 1 if not quick else 2)
        for p in positions:
            out.append(("flip%d@%d" % (bi, p), s[:p] + bytes([s[p] ^ (1 << rng.randrange(8))]) + s[p + 1:]))
            out.append(("del%d@%d" % (bi, p), s[:p] + s[p + 1:]))
            out.append(("dup%d@%d" % (bi, p), s[:p] + s[p:p + 1] + s[p:]))
            out.append(("nul%d@%d" % (bi, p), s[:p] + b"\0" + s[p:]))
            out.append(("badutf%d@%d" % (bi, p), s[:p] + rng.choice([b"\xff", b"\xc3", b"\xed\xa0\x80", b"\xf4\x90\x80\x80", b"\xc0\xaf"]) + s[p:]))
    # replace each JSON value by each other JSON type
    repl = [b"null", b"true", b"7", b"-0", b"1.5e3", b'"s"', b"[]", b"{}", b"[1]", b'{"k":1}', b"1e999", b"01", b"+1", b'"\\ud800"',
            b'"\\udc00"', b'"\\ud83d\\ude00"', b'"\\u12"', b"18446744073709551616", b"-9223372036854775809", b"nul", b"tru"]
    tmpl = [('{"more":%s,"method":"org.example.a.Run","parameters":{"script":["r"]}}', "more"),
            ('{"oneway":%s,"method":"org.example.a.Run","parameters":{"script":["r"]}}', "oneway"),
            ('{"upgrade":%s,"method":"org.example.a.Run","parameters":{"script":["r"]}}', "upgrade"),
            ('{"method":%s,"parameters":{"script":["r"]}}', "method"),
            ('{"method":"org.example.a.Run","parameters":%s}', "parameters"),
            ('{"method":"org.example.a.Run","parameters":{"script":%s}}', "script"),
            ('{"method":"org.example.a.Run","parameters":{"script":["r"],"tag":%s}}', "tag"),
            ('{"method":"org.example.a.Run","parameters":{"script":["r"]},"unknown":%s}', "unknown"),
            # the built-in interface's own parameters (decoded by the runtime, not by an interface implementation)
            ('{"method":"org.varlink.service.GetInterfaceDescription","parameters":%s}', "descr-parameters"),
            ('{"method":"org.varlink.service.GetInterfaceDescription","parameters":{"interface":%s}}', "descr-interface"),
            ('{"method":"org.varlink.service.GetInterfaceDescription","parameters":{"interface":"org.example.a","x":%s}}', "descr-extra"),
            ('%s', "toplevel")]
    ok_after = enc(make("ok", "-", "after"))
    ok_before = enc(make("ok", "-", "before"))
    for t, name in tmpl:
        for r in repl:
            out.append(("type:%s=%s" % (name, r.decode()), ok_before + (t.encode() % r) + b"\0" + ok_after))
    extra = [b'{"method":"a.b","method":"a.c"}', b'{"method":"a.b","more":true,"more":false}', b'{"method":"a.b","x":1,"x":2}',
             b'{"method":"a.b"} x', b'{"method":"a.b"}{"method":"a.b"}', b' \t\r\n{"method" : "a.b" }\n', b'', b' ', b'{}', b'[]',
             b'[null,null,null,"a.b",null]', b'[null,null,null,"a.b"]', b'[null,null,null,"a.b",null,1]', b'[true,false,null,"org.example.a.Run",{"script":["r"]}]',
             b'{"method":"a.b",}', b'{,"method":"a.b"}', b'{"method":"a.b","parameters":{"a":1,"a":2}}', b'{"method":"\\u0000"}',
             b'{"method":"a\\u0000.b"}', b'{"method":"a.b","unknown":"\xff"}', b'{"method":"a.b","parameters":"\xff"}',
             b'{"meth\xffod":"a.b"}', b'{"method":"a.b","unknown":"\\ud800"}', b'{"method":"a.b","parameters":"\\ud800"}',
             b'{"method":"a.b","unknown":1e999}', b'{"method":"a.b","parameters":1e999}', b'{"method":"a.b","parameters":1e308}',
             b'{"method":"a.b","parameters":0.0000000000000000000000000000001e-400}', b'{"method":"a.b","parameters":-0.0}',
             b'{"method":"a.b","parameters":[1 2]}', b'{"method":"a.b","parameters":[1,]}', b'{"method":"a.b" "parameters":1}',
             b'{"method":"a.b","parameters":"\t"}', b'{"method":"a.b","parameters":"\\x"}', b"{'method':'a.b'}",
             b'\xef\xbb\xbf{"method":"a.b"}', b'{"method":"a.b"}\xc2\xa0']
    for e in extra:
        out.append(("extra:" + e[:40].decode("latin1"), ok_before + e + b"\0" + ok_after))
    # nesting depth
    for d in ([1, 2, 100, 125, 126, 127, 128, 129, 200, 1000] + ([] if quick else [5000, 10000])):
        for opener, closer in ((b"[", b"]"), (b'{"a":', b"}")):
            inner = opener * d + b"1" + closer * d
            out.append(("nest-param:%d%s" % (d, opener[:1].decode()), ok_before + b'{"method":"org.example.a.Run","parameters":{"script":["r"],"tag":' + inner + b"}}\0" + ok_after))
            out.append(("nest-unknown:%d%s" % (d, opener[:1].decode()), ok_before + b'{"method":"org.example.a.Run","parameters":{"script":["r"]},"zz":' + inner + b"}\0" + ok_after))
            out.append(("nest-open:%d%s" % (d, opener[:1].decode()), ok_before + b'{"method":"org.example.a.Run","parameters":' + opener * d + b"\0" + ok_after))
    # oversized message and random bytes
    out.append(("oversized", ok_before + b'{"method":"org.example.a.Run","parameters":{"script":["r"],"tag":"' + b"x" * 70000 + b'"}}\0' + ok_after))
    out.append(("oversized-garbage", ok_before + b"x" * 70000 + b"\0" + ok_after))
    for i in range(60 if quick else 2000):
        L = rng.choice([1, 2, 5, 17, 64, 300])
        out.append(("random%d" % i, ok_before + bytes(rng.randrange(256) for _ in range(L)) + ok_after))
    return out


def c06(ck):
    rng = random.Random(ck.seed)
    model_ok, impl_ok = prep(ck, "C06.v")
    if not impl_ok:
        return
    quick = ck.quick
    svc = DEFAULT_SVC
    muts = mutate_streams(rng, quick)
    lines, meta = [], {}
    frame_lines, frame_ids = [], {}
    for n, (label, s) in enumerate(muts):
        cid = "m%d" % n
        meta[cid] = (label, s)
        lines.append(feed_line(cid, svc, [s]))
        for fr in s.split(b"\0")[:-1]:
            if fr not in frame_ids:
                fid = "f%d" % len(frame_ids)
                frame_ids[fr] = fid
                frame_lines.append("%s decode_request %s" % (fid, hx(fr)))
                frame_lines.append(feed_line(fid + "_alone", svc, [fr + b"\0"]))
    impl, model = run_both(ck, lines + frame_lines, model_ok, shards=14)
    ck.rule = ("valid request streams x every truncation point x per-position operators (bit flip, delete, duplicate, insert NUL, insert invalid UTF-8), "
               "every JSON type in every member position, duplicate/unknown members, surrogate escapes, number edge cases, nesting 1..10^4 in known and unknown members, "
               "oversized messages, random bytes; through handle() and (sample) listen() beside a healthy connection; non-trivial = stream differs from a valid one; distinct by stream bytes")
    diff_model(ck, list(meta), impl, model, lambda c: "stream %s" % meta[c][0])
    diff_model(ck, [f for f in frame_ids.values()], impl, model, lambda c: "decode of frame " + c, same=same_decode)
    for cid, (label, s) in meta.items():
        ck.case(s, nontrivial=not label.startswith("valid"),
                sample={"label": label, "stream_hex": s.hex()[:160]} if label.startswith(("type:tag", "nest-param:127")) and len(ck.samples) < 5 else None)
        ck.count("op=" + label.split(":")[0].split("@")[0].rstrip("0123456789"))
        res = impl[cid]
        if res.startswith("PANIC") or "out=" not in res:
            ck.failures.append({"what": "the service panicked / produced no result on hostile input", "label": label,
                                "stream_hex": s.hex()[:2000], "result": res[:200]})
            continue
        # self-consistency oracle on the implementation: frames before the first undecodable one are answered as when
        # sent alone, nothing is emitted for it or after it, and the connection is closed
        frs = s.split(b"\0")[:-1]
        exp = []
        bad = False
        closed = False
        for fr in frs:
            v = impl[frame_ids[fr]]
            # independent of the implementation's own decoder: a JSON value that is not an object with a string
            # `method` member (and boolean-or-null flags) is not a request
            if v.startswith("ok"):
                try:
                    jv = json.loads(fr.decode("utf-8"))
                    definite = (not isinstance(jv, dict)) or not isinstance(jv.get("method"), str) or any(
                        k in jv and jv[k] is not None and not isinstance(jv[k], bool) for k in ("more", "oneway", "upgrade"))
                except Exception:
                    definite = False
                if definite and not isinstance(jv, list):
                    ck.failures.append({"what": "a message that is not a request (no string `method` member / ill-typed flag) was decoded as one",
                                        "frame": fr.decode("utf-8", "replace")[:300]})
            if v.startswith("PANIC"):
                ck.failures.append({"what": "request decoder panicked", "frame_hex": fr.hex()[:400]})
                bad = True
                break
            if not v.startswith("ok"):
                bad = True
                ck.count("malformed_frame_seen")
                break
            alone = impl[frame_ids[fr] + "_alone"]
            # wrong member types inside the built-in method's parameters (independent reading: `parameters` is present and is
            # a scalar, or an object without a string `interface`): a malformed message - no reply for it, connection closed
            try:
                jv = json.loads(fr.decode("utf-8"))
            except Exception:
                jv = None
            if isinstance(jv, dict) and jv.get("method") == "org.varlink.service.GetInterfaceDescription" and jv.get("parameters") is not None \
                    and not any(jv.get(k) is True for k in ("oneway",)):
                pv = jv["parameters"]
                wrong = isinstance(pv, (bool, int, float, str)) or (isinstance(pv, dict) and not isinstance(pv.get("interface"), str))
                if wrong and (out_of(alone) != b"" or fields(alone).get("closed") != "1"):
                    if not any(x.get("frame") == fr.decode("utf-8", "replace")[:300] for x in ck.failures):
                        ck.failures.append({"what": "a message with wrong member types in the built-in method's parameters was answered / did not close the connection",
                                            "frame": fr.decode("utf-8", "replace")[:300], "replies": out_of(alone).decode("utf-8", "replace")[:300],
                                            "closed": fields(alone).get("closed")})
            exp += canon_reply_stream(out_of(alone))
            if fields(alone).get("closed") == "1" or fields(alone).get("upg") != "none":
                closed = True
                break
        f = fields(res)
        got = canon_reply_stream(out_of(res))
        if closed and fields(impl[frame_ids[fr] + "_alone"]).get("upg") != "none":
            continue  # upgraded: rest is payload
        if got != exp:
            ck.failures.append({"what": "replies around a malformed message are wrong (a reply for it, or an earlier request unanswered, or a later one answered)",
                                "label": label, "stream_hex": s.hex()[:2000], "got": got, "expected": exp})
        elif bad and f.get("closed") != "1":
            ck.failures.append({"what": "connection not closed after a malformed message", "label": label, "stream_hex": s.hex()[:2000]})
    # sockets, with a healthy neighbour: healthy requests interleaved in the same batch on their own connections
    sl, smeta = [], {}
    sample = [c for c in meta if not meta[c][0].startswith(("valid", "trunc"))]
    rng.shuffle(sample)
    # deeply nested values always go over the sockets too: there they meet the worker threads' stacks
    deep = [c for c in sample if meta[c][0].startswith("nest-") and int(meta[c][0].split(":")[1][:-1]) <= 128]
    sample = deep + [c for c in sample if c not in set(deep)]
    healthy = stream_of(build_reqs([("ok", "-"), ("getinfo", "-"), ("stream", "more")]))
    for i, cid in enumerate(sample[:((120 + len(deep)) if quick else 1500)]):
        sl.append("%s listen 0 %s | %s" % (cid, svc.tokens(), hx(meta[cid][1])))
        if i % 3 == 0:
            sl.append("h%d listen 0 %s | %s" % (i, svc.tokens(), hx(healthy)))
    # a well-formed request that arrives (in a later segment) after the malformed message must not be answered: the
    # connection is closed by then
    follower = stream_of(build_reqs([("ok", "-")]))
    late = [c for c in sample if fields(impl[c]).get("closed") == "1" and fields(impl[c]).get("upg") == "none"]
    for cid in late[:(40 if quick else 400)]:
        sl.append("L%s listen 30000 %s | %s %s" % (cid, svc.tokens(), hx(meta[cid][1]), hx(follower)))
    # truncated messages: the peer stops in the middle of a message and closes its side; the server must answer what
    # was complete, emit nothing for the fragment and finish the connection (not wait or spin on it)
    trunc = [c for c in meta if meta[c][0].startswith("trunc")]
    rng.shuffle(trunc)
    for cid in trunc[:(12 if quick else 150)]:
        sl.append("T%s listen 0 %s | %s" % (cid, svc.tokens(), hx(meta[cid][1])))
    simpl = run_lines(harness_bin("h_service"), sl, shards=4, timeout=900)
    # the deeply nested messages once more against an unoptimised build of the server (what `cargo build` produces by default:
    # the largest stack frames), each next to a healthy connection
    okd, logd = build_harness(["h_service"], profile="deep")
    if okd:
        dl = []
        for cid in deep:
            dl.append("D%s listen 0 %s | %s" % (cid, svc.tokens(), hx(meta[cid][1])))
        dl.append("Dhealthy listen 0 %s | %s" % (svc.tokens(), hx(healthy)))
        dres = run_lines(harness_bin("h_service", profile="deep"), dl, shards=2, timeout=600)
        for did, res in dres.items():
            if not did.startswith("D") or did == "Dhealthy":
                continue
            base = did[1:]
            ck.case("deep-unopt" + base)
            ck.count("nested_over_socket_unoptimised")
            if res.startswith(("PANIC", "NO-OUTPUT", "CONNECT-ERROR")):
                ck.failures.append({"what": "the server process died / failed on a deeply nested message (unoptimised build, over a socket)",
                                    "label": meta[base][0], "stream_hex": meta[base][1].hex()[:600], "result": res[:200]})
            elif canon_reply_stream(out_of(res)) != canon_reply_stream(out_of(impl[base])) and fields(impl[base]).get("upg") == "none":
                ck.failures.append({"what": "socket replies for a deeply nested message differ from in-memory (unoptimised build)", "label": meta[base][0],
                                    "socket": res[:300], "memory": impl[base][:300]})
    else:
        ck.tie_broken.append("unoptimised harness build failed: " + logd[-300:])
    # a fault on one connection stays local also in its after-effects: with a single worker thread, the connection that
    # arrives after a malformed message (long, non-ASCII or not UTF-8 at every byte offset) is still served
    hostile = ["é".encode() * 150, b"x" + "é".encode() * 150, b"\xff" * 300, b"x" + b"\xff" * 300, b"xx" + b"\xff" * 300,
               b'{"method":"' + "ü".encode() * 120 + b'"', b"y" * 119 + "😀".encode() * 40]
    okreq = enc(make("ok", "-", "later"))
    pl = ["P%d listen_run 0 2500 1 1 %s | 0:150:%s 600:100:%s" % (i, svc.tokens(), hx(enc(make("getinfo", "-", 0)) + h + b"\0"), hx(okreq)) for i, h in enumerate(hostile)]
    pres = run_lines(harness_bin("h_service"), pl, shards=len(pl), timeout=300, env=dict(ENV, VH_TMP=os.path.join(BUILD, "tmp")))
    for i, h in enumerate(hostile):
        ck.case("after-effect|%d" % i)
        ck.count("single_worker_after_malformed")
        r = pres.get("P%d" % i, "")
        f = fields(r)
        conns = [] if f.get("conns", "-") == "-" else f["conns"].split(";")
        ok_later = len(conns) == 2 and conns[1].startswith("conn@") and len(conns[1].split(":")) == 3 and conns[1].split(":")[2] not in ("", "-")
        if not ok_later or not f.get("ret", "").startswith("ok@"):
            ck.failures.append({"what": "after a malformed message on one connection, a later connection to the same server (one worker thread) was not served, "
                                        "or the server did not shut down cleanly", "malformed_message_hex": h.hex()[:300], "result": r[:300]})
    hw = run_lines(harness_bin("h_service"), [feed_line("hw", svc, [healthy])])["hw"]
    for cid, res in simpl.items():
        ck.count("socket_cases")
        if cid.startswith("T"):
            base = cid[1:]
            ck.case("trunc-sock" + base)
            ck.count("truncated_over_socket")
            if "timeout=1" in res or res.startswith(("PANIC", "NO-OUTPUT", "CONNECT-ERROR")):
                ck.failures.append({"what": "the server did not finish a connection whose peer closed in the middle of a message",
                                    "label": meta[base][0], "stream_hex": meta[base][1].hex()[:1000], "result": res[:200]})
            elif canon_reply_stream(out_of(res)) != canon_reply_stream(out_of(impl[base])):
                ck.failures.append({"what": "socket replies for a truncated stream differ from in-memory", "label": meta[base][0],
                                    "stream_hex": meta[base][1].hex()[:1000], "socket": res[:300], "memory": impl[base][:300]})
            continue
        if cid.startswith("L"):
            base = cid[1:]
            ck.case("late" + base)
            ck.count("late_follower")
            if res.startswith(("PANIC", "NO-OUTPUT", "CONNECT-ERROR")):
                ck.failures.append({"what": "server process/socket failure on hostile input", "label": meta[base][0], "result": res[:200]})
            elif canon_reply_stream(out_of(res)) != canon_reply_stream(out_of(impl[base])):
                ck.failures.append({"what": "a request sent after a malformed message on the same connection was answered (the faulty connection was not closed)",
                                    "label": meta[base][0], "stream_hex": meta[base][1].hex()[:1000], "socket": res[:300], "memory": impl[base][:300]})
            continue
        if cid.startswith("h"):
            ck.case("healthy" + cid)
            if canon_reply_stream(out_of(res)) != canon_reply_stream(out_of(hw)):
                ck.failures.append({"what": "a healthy connection beside faulty ones got wrong replies", "got": res[:300]})
            continue
        ck.case("sock" + cid)
        if res.startswith(("PANIC", "NO-OUTPUT", "CONNECT-ERROR")):
            ck.failures.append({"what": "server process/socket failure on hostile input", "label": meta[cid][0], "result": res[:200]})
        elif canon_reply_stream(out_of(res)) != canon_reply_stream(out_of(impl[cid])) and fields(impl[cid]).get("upg") == "none":
            ck.failures.append({"what": "socket replies for a hostile stream differ from in-memory", "label": meta[cid][0],
                                "stream_hex": meta[cid][1].hex()[:1000], "socket": res[:300], "memory": impl[cid][:300]})


def c05(ck):
    model_ok, impl_ok = prep(ck, "C05.v")
    if not impl_ok:
        return
    ck.rule = ("server: every script over {set_continues(true), set_continues(false), reply, reply_error} up to length %d x flags {none, more, oneway, more=false}; "
               "non-trivial = non-empty script; distinct by (script, flags)") % (5 if ck.quick else 7)
    c05_server(ck, model_ok)
    try:
        import check_client
        check_client.c05_client(ck)
    except ImportError:
        ck.notes.append("client half (iteration of more calls) is checked by the client harness when present")
