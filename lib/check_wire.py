"""C17: wire data types survive a JSON round trip in both directions."""
import itertools
import json
import random

from common import *
from svcgen import loads

STRS = ["", "a", "a.b", "org.example.Ping", "é", "日本", "😀", "q\"uote", "back\\slash", "nl\nx", "tab\t", "\u0001", "\u001f", "\u007f",
        "/", "a b", " ", "k" * 40]
PARAMS = [None, "somenull", True, False, 0, -1, 7, 2 ** 63 - 1, -2 ** 63, 2 ** 64 - 1, 1.5, -2.25, 1e100, "s", "é\"\\\n", [], {}, [1, [2, [3]]],
          {"a": 1, "b": {"c": [True, None, "x"]}}, {"z": 1, "a": 2, "m": {"k": {}}}, [[], {}, [{}]], {"": "", "é": "ü"}]


def ptok(p):
    if p is None:
        return "none"
    if p == "somenull":
        return "somenull"
    return hx(json.dumps(p, ensure_ascii=False, separators=(",", ":")))


def bt(b):
    return {None: "-", True: "t", False: "f"}[b]


def same_mk(a, b):
    fa, fb = fields(a), fields(b)
    if "text" not in fa or "text" not in fb:
        return False
    try:
        if loads(unhx(fa["text"]).decode("utf-8")) != loads(unhx(fb["text"]).decode("utf-8")):
            return False
        if loads(unhx(fa["vtext"]).decode("utf-8")) != loads(unhx(fb["vtext"]).decode("utf-8")):
            return False
    except Exception:
        return False
    return all(fa.get(k) == fb.get(k) for k in ("eq_str", "eq_slice", "eq_value"))


def same_de(a, b):
    if a.split(" ")[0] != b.split(" ")[0]:
        return False
    if not a.startswith("ok"):
        return True
    try:
        return loads(unhx(a.split(" ")[1]).decode("utf-8")) == loads(unhx(b.split(" ")[1]).decode("utf-8"))
    except Exception:
        return False


def drop_null_optionals(v, optional):
    return {k: x for k, x in v.items() if not (k in optional and x is None)}


def c17(ck):
    rng = random.Random(ck.seed)
    quick = ck.quick
    ref = regenerate(["WireGen.v", "SetGen.v"])
    for n, msg in ref:
        ck.tie_broken.append("translator refused %s: %s" % (n, msg))
    ck.props("C17.v")
    model_ok, log = build_driver()
    if not model_ok:
        ck.proof_broken.append("the executable model does not build against the regenerated sources:\n" + "\n".join(log.strip().splitlines()[-15:]))
    ok, log = build_harness(["h_wire"])
    if not ok:
        ck.tie_broken.append("harness does not build: " + "\n".join(log.strip().splitlines()[-15:]))
        return
    ck.trusted = ["Coq 8.16.1 kernel; vm_compute for the computed schema facts",
                  "tr/wire.py, tr/set.py (struct field tables, skip attributes, the StringHashSet visitor's loop body)",
                  "extraction + ml/driver.ml; harness/src/bin/h_wire.rs",
                  "modelled not verified: serde-derive semantics, serde_json reader/writer; f64 <-> text conversion is trusted (generators use lexemes Rust prints)"]
    ck.rule = ("Request/Reply values over flags {unset,true,false}^3 x method strings x parameters {absent, Some(null), scalars incl. i64/u64 bounds and floats, nested}; "
               "ServiceInfo; string sets and maps of 0..8 keys incl. empty, non-ASCII, escape-requiring; all three deserialisation entry points; "
               "valid request/reply objects (members permuted, null optionals, unknown members, whitespace) for the JSON->value->JSON direction; "
               "invalid texts for agreement of the model; non-trivial = everything except the empty value; distinct by constructor arguments")
    lines, meta = [], {}
    n = 0

    def add(kind, line, info):
        nonlocal n
        cid = "w%d" % n
        n += 1
        lines.append(cid + " " + line)
        meta[cid] = (kind, info)

    flags = [None, True, False]
    combos = list(itertools.product(flags, flags, flags))
    for (m, o, u) in combos:
        for p in (PARAMS if not quick else PARAMS[::2] + ["somenull"]):
            me = rng.choice(STRS)
            add("mk_req", "mk_req %s %s %s %s %s" % (bt(m), bt(o), bt(u), hx(me), ptok(p)), {"more": m, "oneway": o, "upgrade": u, "method": me, "parameters": p})
    for me in STRS:
        add("mk_req", "mk_req - - - %s none" % hx(me), {"method": me, "parameters": None})
    for c in flags:
        for e in [None] + STRS[:8]:
            for p in (PARAMS if not quick else PARAMS[1::3]):
                add("mk_reply", "mk_reply %s %s %s" % (bt(c), "none" if e is None else hx(e), ptok(p)), {"continues": c, "error": e, "parameters": p})
    for i in range(10 if quick else 80):
        ifs = [rng.choice(STRS) for _ in range(rng.randint(0, 5))]
        f4 = [rng.choice(STRS) for _ in range(4)]
        add("mk_info", "mk_info %s %s" % (" ".join(hx(x) for x in f4), " ".join(hx(x) for x in ifs)), {"fields": f4, "interfaces": ifs})
    for k in range(0, 9):
        for _ in range(3 if quick else 20):
            keys = rng.sample(STRS, min(k, len(STRS)))
            add("mk_set", "mk_set " + " ".join(hx(x) for x in keys), {"keys": keys})
            kv = [(x, rng.choice(STRS)) for x in keys]
            add("mk_map", "mk_map " + " ".join("%s:%s" % (hx(a), hx(b)) for a, b in kv), {"kv": kv})
    # JSON objects -> value -> JSON
    req_objs = []
    for _ in range(60 if quick else 600):
        d = {}
        for fl in ("more", "oneway", "upgrade"):
            c = rng.random()
            if c < 0.3:
                d[fl] = rng.choice([True, False])
            elif c < 0.45:
                d[fl] = None
        d["method"] = rng.choice(STRS)
        c = rng.random()
        if c < 0.6:
            d["parameters"] = rng.choice([p for p in PARAMS if p not in (None, "somenull")])
        elif c < 0.7:
            d["parameters"] = None
        if rng.random() < 0.2:
            d["unknown" + str(rng.randint(0, 3))] = rng.choice([1, "x", [1, 2], {"a": None}])
        items = list(d.items())
        rng.shuffle(items)
        req_objs.append(dict(items))
    for d in req_objs:
        sep = rng.choice([(",", ":"), (", ", ": "), (" ,\n", " :\t")])
        t = json.dumps(d, ensure_ascii=rng.random() < 0.3, separators=sep)
        for how in ("text", "str", "value"):
            add("de_req", "de_req %s %s" % (how, hx(t)), {"obj": d, "how": how})
    for _ in range(40 if quick else 400):
        d = {}
        if rng.random() < 0.5:
            d["continues"] = rng.choice([True, False, None])
        if rng.random() < 0.5:
            d["error"] = rng.choice(STRS + [None])
        if rng.random() < 0.7:
            d["parameters"] = rng.choice([p for p in PARAMS if p != "somenull"])
        items = list(d.items())
        rng.shuffle(items)
        t = json.dumps(dict(items), ensure_ascii=False)
        for how in ("text", "value"):
            add("de_reply", "de_reply %s %s" % (how, hx(t)), {"obj": dict(items), "how": how})
    # sets / maps / small structs from texts, valid and invalid
    set_texts = ['{}', 'null', '{"a":{}}', '{"a":{},"b":{}}', ' { "a" : { } , "b":{} } ', '{"a":{},"a":{}}', '{"a":5}', '{"a":null,"b":[1,{"x":2}]}',
                 '{"a":{"nested":{}}}', '[]', '"a"', '{"a"}', '{"a":}', '{"a":{},}', '{"a":{}', '{"\\u00e9":{}}', '{"a":{}} x', '5', 'true',
                 '{"a":{},"b"}', '{"one":{},"two":{},"three":{}}', '{"a":1e999}', '{"a":"\\ud800"}']
    for t in set_texts:
        for how in ("text", "str", "value"):
            add("de_set", "de_set %s %s" % (how, hx(t)), {"text": t, "how": how})
    map_texts = ['{}', '{"a":"b"}', '{"a":"b","c":"d"}', '{"a":"b","a":"c"}', '{"a":1}', '{"a":null}', 'null', '[]', '{"a":"b",}', '{"é":"\\n"}']
    for t in map_texts:
        for how in ("text", "value"):
            add("de_map", "de_map %s %s" % (how, hx(t)), {"text": t, "how": how})
    small = {"de_descr_args": ['{"interface":"a.b"}', '{}', '{"interface":null}', '{"interface":5}', '["a.b"]', '[]', '{"interface":"a","interface":"b"}', '{"interface":"a","x":[1]}'],
             "de_descr_reply": ['{"description":"text"}', '{}', '{"description":null}', '{"description":5}'],
             "de_err_iface": ['{"interface":"x"}', '{}', '{"interface":null}', '{"interface":[]}'],
             "de_err_param": ['{"parameter":"x"}', '{}', '{"parameter":null}'],
             "de_err_method": ['{"method":"x"}', '{}'], "de_err_notimpl": ['{"method":"x"}', '{}', '{"method":true}'],
             "de_info": ['{"vendor":"v","product":"p","version":"1","url":"u","interfaces":["a","b"]}', '{"vendor":"v"}',
                         '{"vendor":"v","product":"p","version":"1","url":"u","interfaces":[1]}', '["v","p","1","u",[]]',
                         '{"vendor":"v","product":"p","version":"1","url":"u","interfaces":null}']}
    for op, texts in small.items():
        for t in texts:
            for how in ("text", "value"):
                add(op, "%s %s %s" % (op, how, hx(t)), {"text": t, "how": how})
    # the other wire structs of the built-in interface (arguments, description reply, parameters of the standard errors):
    # value -> JSON -> value on the implementation (their text -> value -> text direction is in `small` above)
    for kind_ in ("getinfoargs", "descr_args", "descr_reply", "err_iface", "err_param", "err_method", "err_notimpl"):
        vals = [None] if kind_ == "getinfoargs" else ([None] if kind_ != "descr_args" else []) + rng.sample(STRS, min(len(STRS), 4 if quick else 12)) + ["", "a.b"]
        for v in vals:
            add("mk_aux", "mk_aux %s %s" % (kind_, "none" if v is None else hx(v)), {"type": kind_, "value": v})
    impl = run_lines(harness_bin("h_wire"), lines, shards=8)
    model = run_lines(DRIVER, [l for l in lines if " mk_aux " not in l], shards=8) if model_ok else {}
    nd = 0
    for cid, (kind, info) in meta.items():
        ck.case(lines[int(cid[1:])].split(" ", 1)[1], sample={"op": kind, "case": info} if rng.random() < 0.004 else None)
        ck.count("op=" + kind)
        a = impl[cid]
        if a.startswith("PANIC") or a.startswith("NO-OUTPUT"):
            ck.failures.append({"what": "panic while (de)serialising", "op": kind, "case": info})
            continue
        if cid in model:
            same = same_mk if kind.startswith("mk_") else same_de
            if not same(a, model[cid]):
                nd += 1
                if nd <= 5:
                    ck.tie_broken.append("model/implementation disagree on %s %s: impl=%s model=%s" % (kind, json.dumps(info)[:200], a[:300], model[cid][:300]))
        # property oracles on the implementation alone
        if kind.startswith("mk_"):
            f = fields(a)
            somenull = info.get("parameters") == "somenull"
            for k, what in (("eq_str", "from_str"), ("eq_slice", "from_slice"), ("eq_value", "from_value")):
                if f.get(k) != "1":
                    if somenull:
                        ck.known_class("OptValueSomeNull")
                    else:
                        ck.failures.append({"what": "serialize then %s does not give back an equal value" % what, "op": kind, "case": info,
                                            "text": unhx(f.get("text", "-")).decode("utf-8", "replace")})
            if f.get("same_bytes") != "1":
                ck.failures.append({"what": "to_vec and to_string differ", "case": info})
            try:
                txt = json.loads(unhx(f["text"]).decode("utf-8"))
            except Exception:
                ck.failures.append({"what": "serialised text is not JSON", "case": info})
                continue
            if kind in ("mk_req", "mk_reply"):
                for k in (("more", "oneway", "upgrade", "parameters") if kind == "mk_req" else ("continues", "error", "parameters")):
                    if info.get(k) is None and k in txt:
                        ck.failures.append({"what": "an unset optional member is not omitted from the output", "member": k, "case": info,
                                            "text": json.dumps(txt)})
            if kind == "mk_set":
                if not (isinstance(txt, dict) and set(txt.keys()) == set(info["keys"]) and all(v == {} for v in txt.values())):
                    ck.failures.append({"what": "a string set is not written as an object mapping each element to an empty object",
                                        "keys": info["keys"], "text": json.dumps(txt)})
        elif kind in ("de_req", "de_reply") and a.startswith("ok"):
            opt = ("more", "oneway", "upgrade", "parameters") if kind == "de_req" else ("continues", "error", "parameters")
            known = opt + ("method",)
            want = drop_null_optionals({k: v for k, v in info["obj"].items() if k in known}, opt)
            got = drop_null_optionals(loads(unhx(a.split(" ")[1]).decode("utf-8")), opt)
            from svcgen import canon_num
            if canon_num(want) != got:
                ck.failures.append({"what": "a valid %s object does not serialise back to an equivalent object" % kind[3:], "object": info["obj"],
                                    "how": info["how"], "got": got})
        elif kind in ("de_req", "de_reply") and not a.startswith("ok"):
            ck.failures.append({"what": "a valid %s object is rejected" % kind[3:], "object": info["obj"], "how": info["how"], "result": a})
        elif kind == "de_set" and info["text"] in ('{}', '{"a":{}}', '{"a":{},"b":{}}', ' { "a" : { } , "b":{} } ', '{"\\u00e9":{}}', '{"one":{},"two":{},"three":{}}'):
            want = set(json.loads(info["text"]).keys())
            back = None
            if a.startswith("ok"):
                try:
                    back = json.loads(unhx(a.split(" ")[1]).decode("utf-8"))
                except Exception:
                    back = None
            if not isinstance(back, dict) or set(back.keys()) != want:
                ck.failures.append({"what": "a string set text is not read back", "text": info["text"], "how": info["how"], "result": a})


CHECKS = {"C17": c17}
