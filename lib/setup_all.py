"""./vcheck setup: build everything from files on disk (offline)."""
import os
import sys

from common import *


def main():
    rc = 0
    ref = regenerate(list(TRANSLATORS))
    for n, m in ref:
        print("translator refused %s: %s" % (n, m))
        rc = 1
    ok, log = coq_make([], timeout=3000)
    print("coq build:", "ok" if ok else "FAILED")
    if not ok:
        print("\n".join(log.splitlines()[-40:]))
        rc = 1
    ok, log = build_driver()
    print("driver:", "ok" if ok else "FAILED")
    if not ok:
        print("\n".join(log.splitlines()[-40:]))
        rc = 1
    bins = [f[:-3] for f in os.listdir(os.path.join(VERIF, "harness", "src", "bin")) if f.endswith(".rs")]
    hook_bins = [b for b in bins if b in HOOK_BINS]
    ok, log = build_harness([b for b in bins if b not in HOOK_BINS])
    print("harness:", "ok" if ok else "FAILED")
    if not ok:
        print("\n".join(log.splitlines()[-40:]))
        rc = 1
    ok, log = build_harness(["h_service"], profile="deep")
    print("harness (unoptimised h_service):", "ok" if ok else "FAILED")
    if not ok:
        print("\n".join(log.splitlines()[-40:]))
        rc = 1
    if hook_bins:
        ok, log = build_harness(hook_bins, hooks=True)
        print("harness (hooks):", "ok" if ok else "FAILED")
        if not ok:
            print("\n".join(log.splitlines()[-40:]))
            rc = 1
    bad = grep_gate()
    if bad:
        print("forbidden constructs:", bad)
        rc = 1
    return rc
