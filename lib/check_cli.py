"""C18 (the CLI bridge is transparent) and C20 (`varlink call` reports exactly what the service
replied): run the real `varlink` binary against scripted services."""
import json
import os
import random
import re
import select
import signal
import socket
import subprocess
import time

from common import *
from svcgen import *

CLI = os.path.join(BUILD, "target-repo", "debug", "varlink")
TMP = os.path.join(BUILD, "tmp")
SGR = re.compile(r"\x1b\[[0-9;]*m")


def build_cli():
    with Lock("cargo-repo"):
        rc, log = sh(["cargo", "build", "--offline", "--quiet", "-p", "varlink-cli"], cwd=REPO,
                     env=dict(ENV, CARGO_TARGET_DIR=os.path.join(BUILD, "target-repo")), timeout=1500)
    return rc == 0 and os.path.exists(CLI), log


class Services:
    """resolver + service A (org.example.a) + service B (org.example.b), each its own process"""

    def __init__(self, tag, serial=False, resolver_cf=False):
        """serial: services a and b serve one connection at a time (a single worker thread);
        resolver_cf: the resolver spells out "continues": false in its Resolve replies"""
        os.makedirs(TMP, exist_ok=True)
        self.dir = os.path.join(TMP, "svc-%s-%d" % (tag, os.getpid()))
        os.makedirs(os.path.join(self.dir, "deep", "er"), exist_ok=True)
        self.a = "unix:" + os.path.join(self.dir, "deep", "er", "a.sock")
        self.b = "unix:@vh-cli-b-%s-%d" % (tag, os.getpid())
        self.r = "unix:" + os.path.join(self.dir, "resolver.sock")
        self.tcp = None
        act = harness_bin("h_actsrv")
        one = "--listen-one1" if serial else "--listen-one"
        self.procs = [subprocess.Popen([act, one, self.a, "a"], stderr=subprocess.DEVNULL),
                      subprocess.Popen([act, one, self.b, "b"], stderr=subprocess.DEVNULL),
                      subprocess.Popen([act, "--resolver-cf" if resolver_cf else "--resolver", self.r, "org.example.a=" + self.a, "org.example.b=" + self.b], stderr=subprocess.DEVNULL)]
        for addr in (self.a, self.r):
            p = addr[5:]
            t0 = time.time()
            while not os.path.exists(p) and time.time() - t0 < 5:
                time.sleep(0.01)
        time.sleep(0.05)

    def add_tcp(self):
        s = socket.socket()
        s.bind(("127.0.0.1", 0))
        port = s.getsockname()[1]
        s.close()
        self.tcp = "tcp:127.0.0.1:%d" % port
        self.procs.append(subprocess.Popen([harness_bin("h_actsrv"), "--listen-one", self.tcp, "a"], stderr=subprocess.DEVNULL))
        time.sleep(0.2)

    def add_tcp6(self):
        s = socket.socket(socket.AF_INET6)
        s.bind(("::1", 0))
        port = s.getsockname()[1]
        s.close()
        self.tcp6 = "tcp:[::1]:%d" % port
        self.procs.append(subprocess.Popen([harness_bin("h_actsrv"), "--listen-one", self.tcp6, "a"], stderr=subprocess.DEVNULL))
        time.sleep(0.2)

    def direct(self, addr, data, settle=0.15):
        """send data directly to a service, read until quiet, close"""
        t0 = time.time()
        while True:
            try:
                if addr.startswith("unix:@"):
                    s = socket.socket(socket.AF_UNIX)
                    s.connect("\0" + addr[6:])
                elif addr.startswith("unix:"):
                    s = socket.socket(socket.AF_UNIX)
                    s.connect(addr[5:].split(";")[0])
                else:
                    h, p = addr[4:].rsplit(":", 1)
                    s = socket.create_connection((h.strip("[]"), int(p)))
                break
            except (ConnectionRefusedError, FileNotFoundError):
                # the service process may still be starting (the machine can be busy)
                if time.time() - t0 > 5:
                    raise
                time.sleep(0.05)
        s.sendall(data)
        s.shutdown(socket.SHUT_WR)
        out = b""
        s.settimeout(5)
        while True:
            try:
                b = s.recv(65536)
            except socket.timeout:
                break
            if not b:
                break
            out += b
        s.close()
        return out

    def stop(self):
        for p in self.procs:
            p.kill()
        for p in self.procs:
            p.wait()
        sh(["rm", "-rf", self.dir])


def run_bridge(args, data_parts, expect_frames, env=None, close_after=True, raw_tail=0, timeout=8.0):
    """run `varlink <args>` with piped stdio; write the parts (one write each), read stdout until
    expect_frames NUL-terminated frames (+ raw_tail further bytes) arrived or timeout; then close
    stdin and collect the exit status"""
    errf = open(os.path.join(TMP, "bridge-stderr-%d.txt" % os.getpid()), "w+b")
    p = subprocess.Popen([CLI] + args, stdin=subprocess.PIPE, stdout=subprocess.PIPE, stderr=errf, env=env or ENV)
    out = b""
    t0 = time.time()
    for part in data_parts:
        try:
            p.stdin.write(part)
            p.stdin.flush()
        except BrokenPipeError:
            break
        time.sleep(0.002)
    fd = p.stdout.fileno()
    os.set_blocking(fd, False)

    def done():
        if out.count(b"\0") < expect_frames:
            return False
        if raw_tail:
            idx = -1
            for _ in range(expect_frames):
                idx = out.index(b"\0", idx + 1)
            return len(out) - idx - 1 >= raw_tail
        return True
    while not done() and time.time() - t0 < timeout:
        r, _, _ = select.select([fd], [], [], 0.05)
        if r:
            try:
                b = os.read(fd, 65536)
            except BlockingIOError:
                continue
            if not b:
                break
            out += b
    timed_out = not done()
    try:
        p.stdin.close()
    except Exception:
        pass
    t1 = time.time()
    rc = None
    while time.time() - t1 < 4:
        rc = p.poll()
        if rc is not None:
            break
        r, _, _ = select.select([fd], [], [], 0.05)
        if r:
            try:
                b = os.read(fd, 65536)
                out += b
            except BlockingIOError:
                pass
    if rc is None:
        p.kill()
        p.wait()
        rc = "hung"
    try:
        rest = os.read(fd, 1 << 20)
        out += rest
    except Exception:
        pass
    errf.seek(0)
    err = errf.read().decode("utf-8", "replace")
    errf.close()
    p.stdout.close()
    return out, rc, err, timed_out


def frames_of(b):
    return b.split(b"\0")[:-1]


def prep_cli(ck, prop_file):
    ref = regenerate(["WireGen.v"])
    for n, msg in ref:
        ck.tie_broken.append("translator refused %s: %s" % (n, msg))
    ck.props(prop_file)
    model_ok, log = build_driver()
    ok1, log1 = build_harness(["h_actsrv", "h_service"])
    ok2, log2 = build_cli()
    if not ok1:
        ck.tie_broken.append("harness does not build: " + log1[-400:])
    if not ok2:
        ck.tie_broken.append("varlink-cli does not build: " + log2[-400:])
    ck.trusted = ["Coq 8.16.1 kernel", "lib/check_cli.py (process runner, scripted services and resolver in harness/src/bin/h_actsrv.rs)",
                  "tr/proxy.py (cache discipline, rewritten strings, where the bridge constructs its two buffered readers), tr/cli.py (what main() exits with after a failed command with and without --debug; `?` on varlink_call; the URL delimiters)",
                  "modelled not verified: process spawning, epoll close-watching, pretty-printing and colour of the CLI"]
    return model_ok, ok1 and ok2


def c18(ck):
    rng = random.Random(ck.seed)
    quick = ck.quick
    model_ok, ok = prep_cli(ck, "C18.v")
    if not ok:
        return
    ck.rule = ("bridge modes {resolver lookup, --connect ADDRESS, --activate CMD, --bridge CMD} x request sequences over two services behind a scripted resolver (plain, more, oneway, unknown "
               "interface, service-info queries; the bridge must switch targets; targets with a worker pool and targets serving one connection at a time) x client behaviours (pipelined, one-at-a-time, closing after the last expected reply) x upgraded sessions with "
               "payload; stdout and exit status of the real `varlink bridge` process against direct sockets; non-trivial = at least two requests; distinct by (mode, sequence, behaviour)")
    sv_par = Services("c18")
    sv_ser = Services("c18s", serial=True)
    sv_cf = Services("c18c", resolver_cf=True)
    sv = sv_par
    try:
        def rq(iface, script, tag, **fl):
            return req("%s.Run" % iface, {"script": script, "tag": tag}, **fl)
        seqs = []
        A, Bn = "org.example.a", "org.example.b"
        seqs.append([rq(A, ["r"], 1), rq(Bn, ["r"], 2), rq(A, ["e"], 3), rq(A, ["c1", "r", "r", "c0", "r"], 4, more=True), rq(Bn, ["r"], 5)])
        seqs.append([req("org.varlink.service.GetInfo"), rq(A, ["r"], 1), req("org.varlink.service.GetInterfaceDescription", {"interface": A}), rq(Bn, ["r0"], 2)])
        seqs.append([rq(A, ["r"], 1, oneway=True), rq(A, ["r"], 2), rq(Bn, ["r"], 3, oneway=True), rq(Bn, ["e0"], 4)])
        seqs.append([rq(A, ["r"], 1), req("org.example.a.Nope", {"x": 1}), rq(Bn, ["mni"], 2)])
        # messages larger than the bridge's read buffer (8192), in both directions: one burst, then nothing more from that side
        seqs.append([rq(A, ["c1", "r", "c0", "rf"], 1, more=True), rq(A, ["rf"], 2), rq(A, ["r"], 3)])   # final replies spelling out continues:false
        seqs.append([rq(A, ["r"], "x" * 9000)])
        seqs.append([rq(A, ["r"], "y" * 70000), rq(A, ["r"], 2)])
        seqs.append([rq(A, ["c1", "r", "r", "c0", "r"], "z" * 20000, more=True)])
        for _ in range(3 if quick else 25):
            L = rng.randint(2, 7)
            s = []
            for i in range(L):
                iface = rng.choice([A, Bn])
                c = rng.random()
                if c < 0.15:
                    s.append(req("org.varlink.service.GetInfo"))
                elif c < 0.3:
                    s.append(rq(iface, ["c1", "r", "c0", "r"], i, more=True))
                elif c < 0.4:
                    s.append(rq(iface, ["r"], i, oneway=True))
                else:
                    s.append(rq(iface, [rng.choice(["r", "e", "r0", "inv"])], {"n": i, "s": "é\"x"}))
            seqs.append(s)
        # the bridge's routing cache (last interface, address): every sequence of length 3 over calls to service a,
        # to service b, the service-info query (answered by the resolver) and a call to the resolver itself
        n_fixed = len(seqs)
        import itertools as _it
        alpha = {"A": lambda i: rq(A, ["r"], i), "B": lambda i: rq(Bn, ["r"], i), "I": lambda i: req("org.varlink.service.GetInfo"),
                 "R": lambda i: req("org.varlink.resolver.Resolve", {"interface": A}),
                 # oneway variants: nothing may come back for them, whoever ends up answering
                 "i": lambda i: req("org.varlink.service.GetInfo", None, oneway=True), "a": lambda i: rq(A, ["r"], i, oneway=True)}
        cache_seqs = []
        for pat in _it.product("ABIR", repeat=3):
            cache_seqs.append([alpha[x](i) for i, x in enumerate(pat)])
        for pat in _it.product("AIia", repeat=3):
            if "i" in pat or "a" in pat:
                cache_seqs.append([alpha[x](i) for i, x in enumerate(pat)])
        seqs += cache_seqs
        modes = ["resolver", "connect", "activate", "bridge"]
        # "resolver-serial": the resolver's targets serve one connection at a time (ListenConfig.max_worker_threads = 1): the bridge
        # must be done with one target connection before it depends on an answer over the next
        serial_ids = set(list(range(5)) + [n_fixed + k for k in (0, 1, 5, 21, 42)])
        for si, seq in enumerate(seqs):
            # "resolver-cf": the resolver's replies spell out "continues": false (legal wire syntax of other implementations)
            for mode in (modes if si < n_fixed else ["resolver"]) + (["resolver-serial", "resolver-cf"] if si in serial_ids else []):
                sv = {"resolver-serial": sv_ser, "resolver-cf": sv_cf}.get(mode, sv_par)
                label = mode
                if mode in ("resolver-serial", "resolver-cf"):
                    mode = "resolver"
                if mode != "resolver":
                    # a direct connection reaches one service only: keep the requests for interface a (and service-info)
                    sq = [r for r in seq if not r["method"].startswith(Bn)]
                    if not sq:
                        continue
                else:
                    sq = seq
                for behaviour in (("pipelined", "one-at-a-time") if si < 8 or (not quick and si < n_fixed) else ("pipelined",)):
                    args = {"resolver": ["--resolver", sv.r, "bridge"], "connect": ["bridge", "--connect", sv.a],
                            "activate": ["--activate", "env VH_NOISY=1 %s --listen $VARLINK_ADDRESS" % harness_bin("h_actsrv"), "bridge"],
                            "bridge": ["--bridge", "%s --stdio" % harness_bin("h_actsrv"), "bridge"]}[mode]
                    # expected: every request answered by the service it names; GetInfo by the resolver in resolver mode
                    exp = b""
                    nframes = 0
                    for r in sq:
                        m = r["method"]
                        if mode == "resolver" and m == "org.varlink.service.GetInfo":
                            tgt, r2 = sv.r, dict(r, method="org.varlink.resolver.GetInfo")
                        elif mode == "resolver" and m.startswith("org.varlink.resolver."):
                            tgt, r2 = sv.r, r
                        elif mode == "resolver" and m == "org.varlink.service.GetInterfaceDescription":
                            tgt, r2 = (sv.a if r["parameters"]["interface"] == A else sv.b), r
                        elif mode == "resolver":
                            tgt, r2 = (sv.a if m.startswith(A) else sv.b), r
                        else:
                            tgt, r2 = sv.a, r
                        if mode in ("bridge", "activate"):
                            # these targets register both interfaces; compare with the in-memory service instead
                            o = None
                        else:
                            o = sv.direct(tgt, enc(r2))
                        if o is None:
                            res = run_lines(harness_bin("h_service"), [feed_line_default(r2)])["x"]
                            o = unhx(fields(res)["out"])
                        exp += o
                        nframes += o.count(b"\0")
                    parts = [stream_of(sq)] if behaviour == "pipelined" else [enc(r) for r in sq]
                    if behaviour == "one-at-a-time":
                        out = b""
                        # one request, wait for its replies, next request: emulate by running with per-request expectations
                    out, rc, err, to = run_bridge(args, parts, nframes)
                    ck.case("%s|%d|%s" % (label, si, behaviour), nontrivial=len(sq) >= 2,
                            sample={"mode": label, "behaviour": behaviour, "requests": [r["method"] + ("/more" if r.get("more") else "") + ("/oneway" if r.get("oneway") else "") for r in sq]} if len(ck.samples) < 5 else None)
                    ck.count("mode=" + label)
                    desc = {"mode": label, "behaviour": behaviour, "requests": sq}
                    if canon_reply_stream(out) != canon_reply_stream(exp):
                        ck.failures.append(dict(desc, what="the client of `varlink bridge` does not observe the reply sequence of the services themselves",
                                                got=out.decode("utf-8", "replace")[:800], expected=exp.decode("utf-8", "replace")[:800], stderr=err[-300:], exit=rc))
                    elif rc != 0:
                        ck.failures.append(dict(desc, what="the bridge did not exit successfully after the client closed its side", exit=rc, stderr=err[-300:]))
        # the service ends the session first while the client keeps its side open and idle: the client of the bridge sees
        # the reply and then end-of-stream, as a direct client does, and the bridge exits successfully
        sv = sv_par
        for mode in ("connect", "activate", "bridge"):
            args = {"connect": ["bridge", "--connect", sv.a],
                    "activate": ["--activate", "%s --listen $VARLINK_ADDRESS" % harness_bin("h_actsrv"), "bridge"],
                    "bridge": ["--bridge", "%s --stdio" % harness_bin("h_actsrv"), "bridge"]}[mode]
            for script in (["r", "x"], ["x"]):
                rq1 = rq(A, script, "bye")
                p = subprocess.Popen([CLI] + args, stdin=subprocess.PIPE, stdout=subprocess.PIPE, stderr=subprocess.DEVNULL, env=ENV)
                p.stdin.write(enc(rq1))
                p.stdin.flush()
                fd = p.stdout.fileno()
                os.set_blocking(fd, False)
                got, eof = b"", False
                t0 = time.time()
                while not eof and time.time() - t0 < 6:
                    r, _, _ = select.select([fd], [], [], 0.05)
                    if r:
                        try:
                            b_ = os.read(fd, 65536)
                        except BlockingIOError:
                            continue
                        if not b_:
                            eof = True
                        got += b_
                rc_open = None
                t1 = time.time()
                while time.time() - t1 < 3 and rc_open is None:
                    rc_open = p.poll()
                    time.sleep(0.02)
                try:
                    p.stdin.close()
                except Exception:
                    pass
                if rc_open is None:
                    try:
                        p.wait(timeout=3)
                    except subprocess.TimeoutExpired:
                        p.kill()
                        p.wait()
                p.stdout.close()
                ck.case("service-closes-first|%s|%s" % (mode, script))
                ck.count("service_closes_first")
                want = 1 if "r" in script else 0
                if mode == "bridge":
                    continue_ok = True      # (a --stdio service ends with its input, not on its own: observed only, not judged)
                    if not eof:
                        continue
                if got.count(b"\0") != want or not eof or rc_open is None:
                    ck.failures.append({"what": "the service closed the session first (client side still open and idle): the bridge's client did not see the reply followed by "
                                                "end-of-stream, or the bridge did not exit", "mode": mode, "script": script,
                                        "replies_seen": got.count(b"\0"), "end_of_stream_within_6s": eof, "bridge_exit_while_stdin_open": rc_open})
                elif rc_open != 0:
                    ck.failures.append({"what": "the bridge did not report success after the service ended the session", "mode": mode, "script": script, "exit": rc_open})
        # the activated service exits right after a large last reply, the client picks its replies up late and keeps its side
        # open: everything the service wrote is forwarded before the bridge exits
        for attempt in range(2 if quick else 6):
            big = rq(A, ["r", "q" if attempt % 2 else "qh"], "B" * 150000)
            args = ["--activate", "%s --listen $VARLINK_ADDRESS" % harness_bin("h_actsrv"), "bridge"]
            p = subprocess.Popen([CLI] + args, stdin=subprocess.PIPE, stdout=subprocess.PIPE, stderr=subprocess.DEVNULL, env=ENV)
            p.stdin.write(enc(rq(A, ["r"], 1)) + enc(big))
            p.stdin.flush()
            time.sleep(0.7)
            fd = p.stdout.fileno()
            os.set_blocking(fd, False)
            got, eof = b"", False
            t0 = time.time()
            while not eof and time.time() - t0 < 8:
                r, _, _ = select.select([fd], [], [], 0.05)
                if r:
                    try:
                        b_ = os.read(fd, 1 << 20)
                    except BlockingIOError:
                        continue
                    if not b_:
                        eof = True
                    got += b_
            try:
                p.stdin.close()
            except Exception:
                pass
            try:
                rc_b = p.wait(timeout=4)
            except subprocess.TimeoutExpired:
                p.kill()
                p.wait()
                rc_b = "hung"
            p.stdout.close()
            ck.case("activated-service-exits-after-big-reply|%d" % attempt)
            ck.count("service_exits_after_big_reply")
            frames = got.split(b"\0")
            ok_big = len(frames) == 3 and frames[2] == b"" and len(frames[1]) > 150000
            if not ok_big or rc_b != 0:
                ck.failures.append({"what": "an activated service sent a small and a 150 kB reply and exited; the bridge's client (reading late, its side still open) did not "
                                            "receive both replies completely, or the bridge did not exit successfully", "bytes_received": len(got),
                                    "complete_messages": got.count(b"\0"), "end_of_stream": eof, "exit": rc_b})
        # upgraded sessions
        sv = sv_par
        for mode in ("resolver", "connect"):
            args = {"resolver": ["--resolver", sv.r, "bridge"], "connect": ["bridge", "--connect", sv.a]}[mode]
            # the last two: exactly one / two read buffers (8192) of payload with a line end shortly before the end,
            # after which the client waits - everything received must have been forwarded, not held back
            for payload in (b"raw payload after upgrade\0with nul", bytes(rng.randrange(256) for _ in range(300)),
                            b"A" * 8000 + b"\n" + b"B" * 191, b"C" * 16000 + b"\n" + b"D" * 383):
                up = req("org.example.a.Run", {"script": ["u", "r"], "tag": "up"}, upgrade=True)
                parts = [enc(rq(A, ["r"], 0)), enc(up)]
                out, rc, err, to = run_bridge(args, parts, 2)
                # then the payload, echoed back by the upgraded handler
                p = subprocess.Popen([CLI] + args, stdin=subprocess.PIPE, stdout=subprocess.PIPE, stderr=subprocess.DEVNULL, env=ENV)
                p.stdin.write(enc(up))
                p.stdin.flush()
                got = b""
                fd = p.stdout.fileno()
                os.set_blocking(fd, False)
                t0 = time.time()
                while got.count(b"\0") < 1 and time.time() - t0 < 5:
                    r, _, _ = select.select([fd], [], [], 0.05)
                    if r:
                        try:
                            got += os.read(fd, 65536)
                        except BlockingIOError:
                            pass
                first = got[:got.index(b"\0") + 1] if b"\0" in got else got
                echoed = got[len(first):]
                p.stdin.write(payload)
                p.stdin.flush()
                t0 = time.time()
                while len(echoed) < len(payload) and time.time() - t0 < 5:
                    r, _, _ = select.select([fd], [], [], 0.05)
                    if r:
                        try:
                            echoed += os.read(fd, 65536)
                        except BlockingIOError:
                            pass
                p.stdin.close()
                try:
                    rc2 = p.wait(timeout=4)
                except subprocess.TimeoutExpired:
                    p.kill()
                    rc2 = "hung"
                p.stdout.close()
                ck.case("upgrade|%s|%d" % (mode, len(payload)))
                ck.count("upgraded_sessions")
                if echoed != payload:
                    ck.failures.append({"what": "an upgraded session through the bridge did not carry the payload in both directions unchanged", "mode": mode,
                                        "sent": payload[:60].hex(), "echoed": echoed[:60].hex(), "first_reply": first.decode("utf-8", "replace")[:200]})
                elif rc2 != 0:
                    ck.failures.append({"what": "the bridge did not exit successfully after an upgraded session was closed by the client", "mode": mode, "exit": rc2})
    finally:
        sv_par.stop()
        sv_ser.stop()
        sv_cf.stop()


def feed_line_default(r):
    return "x feed %s | %s" % (DEFAULT_SVC.tokens(), hx(enc(r)))


def parse_json_stream(text):
    dec = json.JSONDecoder()
    out, i = [], 0
    text = text.strip()
    while i < len(text):
        v, j = dec.raw_decode(text, i)
        out.append(v)
        i = j
        while i < len(text) and text[i].isspace():
            i += 1
    return out


def c20(ck):
    rng = random.Random(ck.seed)
    quick = ck.quick
    model_ok, ok = prep_cli(ck, "C20.v")
    if not ok:
        return
    ck.rule = ("reply values of a scripted service (nested objects, arrays, non-ASCII and escape-heavy strings, integers across the i64/u64 range, floats Rust prints canonically, empty objects) x "
               "{call, call --more with 0..k continues replies, error replies with and without parameters, connection closed before the final reply} x address forms {unix path with several "
               "slashes, unix path;mode=, tcp with a dotted quad, tcp with a bracketed IPv6 literal, resolver lookup} x --color on/off, with and without --debug; stdout parsed as a JSON value stream must equal the successful replies' parameters in order, exit status 0 iff every "
               "expected reply arrived and none was an error; non-trivial = all; distinct by case")
    sv = Services("c20")
    sv.add_tcp()
    sv.add_tcp6()
    from svcgen import loads, canon_num
    try:
        values = [1, "s", "é\"\\\n\t", {"nested": {"a": [1, 2, {"b": None}]}}, [], {}, [[], {}], 2 ** 63 - 1, -2 ** 63, 2 ** 64 - 1, 1.5, -0.25, 1e100, True, None,
                  {"kéy": "v\u0001", "z": [True, False]}, "x" * 300]
        scripts = [(["r"], False), (["r0"], False), (["e"], False), (["e0"], False), (["c1", "r", "r", "c0", "r"], True), (["c1", "c0", "r"], True), (["c1", "r", "c0", "e"], True),
                   (["inv"], False), (["mnf"], False), (["mni"], False), (["x"], False), (["c1", "r", "x"], True), (["r"], True)]
        cases = []
        for sc, more in scripts:
            for v in (values if not quick else rng.sample(values, 4)):
                cases.append((sc, more, v))
        rng.shuffle(cases)
        cases = cases[:(60 if quick else 400)]
        # every standard service error (and a custom one), without parameters and with parameters of an unexpected shape:
        # legal on the wire, never produced by the Rust runtime itself
        for en in ("InterfaceNotFound", "MethodNotFound", "MethodNotImplemented", "InvalidParameter"):
            for op in ("E:", "EP:"):
                cases.append(([op + "org.varlink.service." + en], False, 0))
                cases.append((["c1", "r", "c0", op + "org.varlink.service." + en], True, 0))
        cases.append((["E:com.example.Custom"], False, 0))
        # error replies that spell out "continues": false (alone, and as the end of a stream)
        cases += [(["Ef:com.example.Custom"], False, 1), (["Ef:org.example.a.Failed"], True, 2), (["c1", "r", "r", "c0", "Ef:com.example.Boom"], True, 3),
                  (["Ef:org.varlink.service.MethodNotFound"], False, 4)]
        # the final reply spells out "continues": false
        cases += [(["rf"], True, 1), (["c1", "r", "r", "c0", "rf"], True, "s"), (["rf"], False, 2)]
        # "unix-mode": the documented parameter form unix:/path;mode=0600 names the same socket
        # "activate": no address at all - the service is started by the tool (it logs a line on its standard output and one on its
        # standard error while starting: neither belongs on the tool's standard output)
        addrs = [("unix-deep", sv.a), ("tcp", sv.tcp), ("resolver", None), ("unix-mode", sv.a + ";mode=0600"), ("tcp-ipv6", sv.tcp6), ("activate", "ACTIVATE")]
        n = 0
        for sc, more, v in cases:
            form, addr = addrs[n % len(addrs)]
            cyc = n // len(addrs)          # options vary per round over the address forms, so every form meets every option
            color = "on" if (cyc // 2) % 2 == 1 else "off"
            n += 1
            params = {"script": sc, "tag": v}
            method = "org.example.a.Run"
            url = (addr + "/" + method) if addr and addr != "ACTIVATE" else method
            args = ["--color", color]
            if addr == "ACTIVATE":
                args += ["--activate", "env VH_NOISY=1 %s --listen $VARLINK_ADDRESS" % harness_bin("h_actsrv")]
            # --debug does not change what is printed on standard output or the exit status
            if cyc % 2 == 1:
                args = ["--debug"] + args
            if addr is None:
                args += ["--resolver", sv.r]
            args += ["call"] + (["--more"] if more else []) + [url, json.dumps(params)]
            try:
                p = subprocess.run([CLI] + args, stdout=subprocess.PIPE, stderr=subprocess.PIPE, env=ENV, timeout=20)
            except subprocess.TimeoutExpired:
                ck.case(json.dumps([sc, more, v, form, color], sort_keys=True))
                ck.failures.append({"args": args, "what": "`varlink call` did not exit within 20 s although the service had sent its final reply"})
                continue
            out = SGR.sub("", p.stdout.decode("utf-8", "replace"))
            err = SGR.sub("", p.stderr.decode("utf-8", "replace"))
            # what the service replies (direct socket)
            r = req(method, params, **({"more": True} if more else {}))
            direct = sv.direct(addr if addr in (sv.tcp, sv.tcp6) else sv.a, enc(r))      # (the activated service is the same scripted service)   # (the parameter form reaches the same service as sv.a)
            replies = [loads(x.decode("utf-8")) for x in frames_of(direct)]
            exp_print, exp_ok = [], True
            complete = False
            for y in replies:
                if y.get("error") is not None:
                    exp_ok = False
                    complete = True
                    break
                exp_print.append(y.get("parameters") if y.get("parameters") is not None else {})
                if y.get("continues") is not True:
                    complete = True
                    break
            if not complete:
                exp_ok = False
            ck.case(json.dumps([sc, more, v, form, color], sort_keys=True), sample={"script": sc, "more": more, "address_form": form, "color": color, "value": v if len(str(v)) < 60 else "..."} if len(ck.samples) < 6 and n % 9 == 0 else None)
            ck.count("form=%s" % form)
            ck.count("final=%s" % ("ok" if exp_ok else ("error" if complete else "closed")))
            desc = {"args": args, "service_replies": replies}
            try:
                printed = canon_num(parse_json_stream(out))
            except Exception:
                ck.failures.append(dict(desc, what="standard output is not a stream of JSON values", stdout=out[:600]))
                continue
            if printed != canon_num(exp_print):
                ck.failures.append(dict(desc, what="standard output is not, value for value and in order, the parameters of the successful replies", stdout=out[:800], expected=exp_print))
            if (p.returncode == 0) != exp_ok:
                ck.failures.append(dict(desc, what="exit status is zero exactly when every expected reply arrived and none was an error", exit=p.returncode, stderr=err[-300:]))
            if not exp_ok and complete:
                bad = [y for y in replies if y.get("error") is not None][0]
                short = bad["error"].rsplit(".", 1)[-1]
                err_wo = err                                      # (the tool may echo the call's arguments, which here contain the script)
                for op_ in sc:
                    if ":" in op_:
                        err_wo = err_wo.replace(op_, "")
                if bad["error"] not in err_wo and short not in err_wo:
                    ck.failures.append(dict(desc, what="an error reply's name is not reported on standard error", stderr=err[-400:]))
        # address splitting at the last slash / malformed urls
        for url, should_fail in [("org.example.a.Run", True), ("unix:/nonexistent/org.example.a.Run", True), (sv.a + "/NoDotMethod", True), ("nodots", True)]:
            p = subprocess.run([CLI, "call", url], stdout=subprocess.PIPE, stderr=subprocess.PIPE, env=ENV, timeout=20)
            ck.case("url|" + url)
            if (p.returncode != 0) != should_fail:
                ck.failures.append({"what": "malformed or unreachable call URL not reported with a non-zero exit status", "url": url, "exit": p.returncode})
    finally:
        sv.stop()


CHECKS = {"C18": c18, "C20": c20}
