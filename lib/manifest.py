#!/usr/bin/env python3
"""Writes /verif/MANIFEST.json from the table below (run after adding a check)."""
import json
import os

VERIF = os.path.dirname(os.path.dirname(os.path.abspath(__file__)))

COMMON_NOTE = ("Trusted: Coq 8.16.1 kernel + vm_compute; translators tr/*.py; extraction (ExtrOcamlBasic only) + ml/driver.ml; "
               "the Rust harness under harness/. The theorems are about the Coq model; the model is tied to /repo on every run by "
               "regenerated constants (coq/gen) and by differential execution of the extracted model against the implementation. ")

CHECKS = {
    "C01": dict(
        text="Theorems (all request lists, all chunkings): handle()+feed refine a byte automaton; the automaton's output on a pipeline is the in-order "
             "concatenation of each request's own replies up to the first closing request; nothing is skipped while the session stays open. "
             "Tie: model vs VarlinkService::handle and varlink::listen on generated pipelines; implementation-only in-order oracle.",
        note=COMMON_NOTE + "Modelled, not verified: serde_json's text grammar and serde-derive struct decoding, BufReader; scripted interfaces stand for user code.",
        technique="Coq proof (refinement to a byte automaton by induction) + model/implementation differential execution",
        design="5/C01"),
    "C02": dict(
        text="Theorem: feed_all svc chunks = feed_all svc [concat chunks] for every service, stream and segmentation; returned tail = bytes after the last NUL; "
             "after an upgrade every later byte reaches the upgraded handler once, in order. Tie: every single cut / pair of cuts / byte-at-a-time / 8 KiB boundaries "
             "against handle(), sender write schedules against listen().",
        note=COMMON_NOTE + "The caller modelled is the careful one (tail ++ unread remainder of its reader ++ next chunk).",
        technique="Coq proof (automaton refinement, fold over chunks) + differential execution over segmentations",
        design="5/C02"),
    "C03": dict(
        text="Theorems: last-dot split characterisation; a call to i.m reaches exactly the registered interface i with the request unchanged; otherwise InterfaceNotFound naming i; "
             "GetInfo returns the configured strings and advertises every interface once. Tie: regenerated error names/descriptions; services with generated names x method strings.",
        note=COMMON_NOTE + "HashMap iteration order of GetInfo's interface list is canonicalised (not part of the property).",
        technique="Coq proof over the dispatch model instantiated at regenerated constants + differential execution",
        design="5/C03"),
    "C04": dict(
        text="Theorem: for every service and every request with oneway=true, whatever it names and whatever the implementation's script does, zero reply bytes are written; "
             "the reply stream of a pipeline equals that of the pipeline without its oneway requests. Instantiated at facts regenerated from reply_struct/reply_parameters.",
        note=COMMON_NOTE + "Client half (oneway() does not consume a reply) is exercised by the client harness under C07.",
        technique="Coq proof by induction over scripts, instantiated at translated source facts + differential execution",
        design="5/C04"),
    "C05": dict(
        text="Theorems: every reply with continues=true was written for a request with more=true (all scripts, all flags); when the gate trips the script stops in error and nothing is written. "
             "Tie: every script over {set_continues, reply, reply_error} up to length 5 (quick) x flags against handle().",
        note=COMMON_NOTE + "Client iteration half is decided by the client harness (see C07) when present.",
        technique="Coq proof by induction over scripts + exhaustive script enumeration against the implementation",
        design="5/C05"),
    "C06": dict(
        text="Theorem: for every stream whose first undecodable message follows decodable ones, the earlier ones are answered as when alone, nothing is written for the bad one, the session closes; "
             "the handle loop is total. Tie: systematic corruption corpus (truncation, flips, NUL/UTF-8 insertion, type replacement, nesting to 10^4, oversized, random) model vs handle()/listen(). "
             "PARTIAL: 'never panics' is a runtime fact, decided by running every case under catch_unwind beside a healthy connection.",
        note=COMMON_NOTE + "serde_json's acceptance (depth limit 128, lenient scanner for unknown members, number range) is modelled and calibrated by the differential run.",
        technique="Coq proof over the model (first-bad-frame containment) + corruption-corpus differential execution",
        design="5/C06"),
    "C17": dict(
        text="Theorems: parse (print j) = j for every well-formed JSON value nested < 127 deep (text/bytes front end) and the writer never emits NUL; "
             "Request/Reply/ServiceInfo: deserialize(serialize r) = r through a Value for every record outside the Some(null) class, unset optionals omitted "
             "(instantiated at schemas regenerated from the struct definitions); string sets: object of empty objects, read back from Value and from text "
             "(instantiated at the translated visitor loop). Tie: to_string/to_vec/to_value x from_str/from_slice/from_value on generated values and objects.",
        note=COMMON_NOTE + "serde-derive and serde_json semantics are modelled; f64 text conversion trusted. Known finding: Option<Value> = Some(null) reads back as None.",
        technique="Coq proof (JSON reader/writer round trip by induction; schema interpreter lemmas at regenerated schemas) + differential execution",
        design="5/C17"),
    "C07": dict(
        text="Theorems over a transition system of the client (any number of call objects, any reply stream, every interleaving of the atomic send/recv steps): "
             "at most one call owns the stream, idle iff none does, the owner wrote the latest non-oneway request and is reading the reply group that answers it; "
             "busy / repeated sends fail and write nothing; the final reply frees the connection; success iff no error member, error kind by name (regenerated table, "
             "matches the server's names). Tie: scripted fake server (all op sequences to length 3/4, random longer), 2..8 real threads against an echo server. "
             "PARTIAL: real thread schedules are sampled; the atomicity of send() (write lock) is the modelled part.",
        note=COMMON_NOTE + "Typed reply structs: Ok => no error member and error member => mapped Err are checked; the iff is checked with serde_json::Value replies.",
        technique="Coq proof (inductive invariant over all interleavings of a client LTS) + differential execution + threaded trace oracles",
        design="5/C07"),
    "C13": dict(
        text="Theorem (non-interference): in the multi-connection server model, for every interleaving of the connections' bytes and any number of connections, the output a "
             "connection receives equals the output for its own bytes alone (= the single-connection specification). "
             "PARTIAL: that the real handle() keeps all per-connection state on its own stack is what the model asserts; it is decided by running 2..16 (thorough: 64) concurrent "
             "clients with random segmentation/delays beside idle, silent and mid-message-disconnecting peers against varlink::listen and comparing each stream with the prediction for its own sequence.",
        note=COMMON_NOTE + "OS scheduling is sampled, not enumerated.",
        technique="Coq proof (non-interference by induction over the event interleaving) + concurrent socket runs against the model's per-connection prediction",
        design="5/C13"),
    "C14": dict(
        text="Theorem: for the pool as configured by the source (growth condition, counter placement, initial size regenerated from server.rs), in every state reachable under any schedule, "
             "any number of connections, any initial>=1, max>=1: workers <= max (each holds at most one connection) and, when the acceptor is outside execute(), every queued connection up to the "
             "free capacity has an idle or finishing worker. One inductive invariant. Tie: translation of the condition; complete BFS of the extracted LTS for initial 1..3, max 1..4, <=5 "
             "connections; the real pool driven through cfg probes (bursts with workers held at chosen probes, free runs with the invariant checked at every probe).",
        note=COMMON_NOTE + "mpsc FIFO, lock atomicity and thread spawn are modelled. Requires the cfg hooks commit in /repo.",
        technique="Coq proof (inductive invariant of an LTS instantiated at a translated condition) + state-space search of the extracted model + forced schedules on the real pool",
        design="5/C14"),
    "C15": dict(
        text="Theorems: the accept loop returns Timeout only after a full idle period since the countdown was re-armed and only with a zero counter, and (pool invariant) a zero counter means "
             "nothing queued or in service; the stop flag is honoured at the first accept timeout and, being tested once per accepted connection (regenerated fact), no connection is accepted after it "
             "was seen; when drop() has joined all workers every accepted job has finished (Terminates are queued behind jobs). "
             "PARTIAL: time, select(), unlink and promptness are the OS: decided by timed scenarios against varlink::listen with one-sided bounds.",
        note=COMMON_NOTE + "A signal interrupting select() is counted as a full quantum by the code; outside the quantifier.",
        technique="Coq proof (accept-loop transition system with regenerated constants; drain invariant of the pool LTS) + timed listen() scenarios",
        design="5/C15"),
    "C11": dict(
        text="Theorems: the interface-name lexer (hand-modelled rule shape, character classes regenerated from the grammar) consumes a whole string iff it is a reverse-domain name of >= 2 "
             "elements over [A-Za-z0-9-], none beginning or ending with a hyphen, the first beginning with a letter (both directions, all strings); a definition is rejected for duplicates iff two "
             "members share a name across methods/types/errors, and every duplicated name is named. Tie: lexical tables/literals translated, recursive rules compared textually with the modelled "
             "ones; model parser vs IDL::try_from on grammar-derived texts with random trivia, token-level near misses, every interface name over {a,B,1,-,.} to length 5 (thorough 7), type "
             "expressions, all kind x kind collisions. The general language theorem (Renders <-> parse) is proved for the type sub-grammar when coq/theories/TypeProofs.v is present.",
        note=COMMON_NOTE + "rust-peg's operational semantics is modelled (ordered choice, greedy repetition, separator back-off).",
        technique="Coq proof (lexer = declarative name grammar; duplicate folding) over translated lexical tables + differential execution incl. exhaustive short-name enumeration",
        design="5/C11"),
    "C12": dict(
        text="Theorem: for every input and every position 0..length the parser may report, the line computed from it exists in the input split at '\\n' and the column lies within it (so the "
             "lookup in try_from cannot fail and the caret padding is bounded). The model parser terminates by construction (explicit fuel, never exhausted on any case run). "
             "PARTIAL: no-panic, wall-clock termination and stack depth at nesting <= 200 are runtime facts decided by running every case under catch_unwind with a time limit on a default-stack thread.",
        note=COMMON_NOTE + "That rust-peg reports some position <= length on a character boundary is trusted.",
        technique="Coq proof (line/column lemma for all positions) + differential execution on prefixes, mutations, random Unicode, nesting to 200",
        design="5/C12"),
    "C10": dict(
        text="Theorems: for every layout oracle (hence every width and every threshold rule) and every well-formed definition, the formatter's output is a grammar rendering of the definition "
             "with members grouped by kind; it parses back to exactly that definition (name, docs, per-kind order, names, types); formatting the parsed result reproduces the text byte for "
             "byte; every grammar rendering parses to its definition. Tie: model parser and model formatter (thresholds of format.rs) against IDL::try_from / get_multiline / Display / "
             "get_multiline_colored on decorated grammar-directed definitions x widths 0..200 and huge ones; implementation-only oracles: re-parse equality, idempotence, colour strip. "
             "The colored twin is not modelled: its clause is decided by the colour-strip oracle on the implementation.",
        note=COMMON_NOTE + "That parsing yields well-formed trees (the converse direction) is not proved; the harness checks it on every generated case.",
        technique="Coq proof (rendering relation: format => Renders => parse, by mutual induction over the grammar) + differential execution over widths",
        design="5/C10"),
    "C08": dict(
        text="Theorems over the model of the generated bindings: dec (enc v) = v for every typedef environment, IDL type and well-typed value; parameter structs of calls/replies/errors with "
             "unset optionals omitted are read back; enums are their names, string sets objects of empty objects, struct keys exactly the field names; a missing required or ill-typed member makes "
             "the parameters unreadable (InvalidParameter). Tie: (static) the struct/enum definitions the real generator emits are read back and compared with the model for every IDL; (dynamic) the "
             "emitted module is compiled with a harness-written server and client and exercised over a socketpair: wire bytes, values seen by the implementation and values returned to the client. "
             "PARTIAL: serde-derive semantics are modelled; rustc/serde are trusted.",
        note=COMMON_NOTE + "Value domain: floats finite in Rust's printed form, ?object not Some(null).",
        technique="Coq proof (type-directed codec round trip by induction on the typing derivation) + translation validation of emitted types + compiled client/server round trips",
        design="5/C08"),
    "C09": dict(
        text="Theorems: the generator model runs to completion iff no field/enum-member/typedef name is self/Self/super/crate; the naming scheme of emitted types is injective (NoDup) for every "
             "definition with distinct underscore-free member names, underscore-free distinct sibling field names and no anonymous type in error parameters; emitted names are member-name ++ path. "
             "PARTIAL, stated plainly: 'compiles' is rustc's judgement; it is decided by generating and cargo-checking grammar-directed definitions (library API, CLI binary, proc macro) outside the "
             "known classes. Known findings (six classes, each with a Coq witness and a reproducer) are reported as KNOWN-FINDING.",
        note=COMMON_NOTE + "The known classes are decided by Gen.known_classes (extracted); a compile failure outside them is a violation.",
        technique="Coq proof (naming injectivity via split/join at underscores; totality iff no reserved identifier) + generate-and-compile with rustc",
        design="5/C09"),
    "C16": dict(
        text="Theorems at the regenerated prefix tables and constants: client and server classify every address string alike; an address is InvalidAddress on both iff it starts with neither tcp: nor unix:; "
             "a server honours activation only if LISTEN_PID names it and LISTEN_FDS >= 1 (fd 3 for one descriptor, 3 + index of 'varlink' otherwise); the environment with_activate gives its child activates "
             "exactly that child with descriptor 3. PARTIAL: fork/exec, descriptor passing and sockets are the OS: the C01 sequences are run through unix path (with/without ;mode=), abstract, TCP, "
             "with_activate and with_bridge and must give identical reply sequences; the activated child's environment and fd table are inspected; LISTEN_* matrix against a probing server process.",
        note=COMMON_NOTE + "Every constructor call runs under a watchdog.",
        technique="Coq proof over translated address tables and activation constants + transport runs with environment/fd inspection",
        design="5/C16"),
    "C18": dict(
        text="Theorem: the bridge's per-request state machine (rewrite GetInfo, route by interface or by GetInterfaceDescription's argument, resolve only when the interface differs from the "
             "previous request's) produces, for every request sequence and every resolver table, exactly what the service each request is routed to answers - the cache never goes stale. "
             "PARTIAL: processes, epoll close-watching and exit status are the OS: the real `varlink bridge` is run in the four modes (resolver lookup, --connect, --activate, --bridge) against "
             "two scripted services behind a scripted resolver, pipelined and one-at-a-time, plus upgraded sessions with payload; stdout is compared with direct sockets, exit status checked.",
        note=COMMON_NOTE + "The possible loss of bytes that arrive together with a hang-up (WatchClose returns BrokenPipe before reading) is noted in DESIGN.md, not checked.",
        technique="Coq proof (routing state machine = direct answers, invariant on the resolver cache) + runs of the real bridge process against direct sockets",
        design="5/C18"),
    "C19": dict(
        text="Theorems over the certification model (parametric in the typedef environment, the steps' input fields and canonical parameters): a step's success is only given to a request in "
             "the step's call mode, from a client expected at exactly that step, whose parameters equal the canonical ones under the typed comparison; wrong mode / step / client / parameters "
             "never succeed; a call of one client leaves every other client's step untouched; the canonical call succeeds and advances. "
             "PARTIAL: the step implementations are exercised, not translated: every step x single-leaf mutation x flag combination x wrong position x unknown client id against the real "
             "server, 1..16 concurrent canonical clients; the model's comparison (on the IDL text of the repo) must agree with the server on every parameter mutant.",
        note=COMMON_NOTE + "Known finding: Test09 ignores set element values.",
        technique="Coq proof (success => canonical, per-client independence) + mutation matrix against the real certification server",
        design="5/C19"),
    "C20": dict(
        text="Theorems: the URL argument is split at the last slash for every address (paths with many slashes, unix:@..., tcp:h:p) and goes to the resolver when it has none; for every reply "
             "stream the printed values are the parameters of the successful replies in order (absent = {}), printing stops at the first error, and the exit status is 0 iff the stream is "
             "continues* followed by a non-error final reply. PARTIAL: pretty-printing, colour, stderr text and the process exit are outside the model: the `varlink call` binary is run against a "
             "scripted service (value shapes x call / --more / errors / early close x address forms x --color) and stdout is parsed as a JSON value stream.",
        note=COMMON_NOTE,
        technique="Coq proof (URL split; outcome function of the reply stream) + runs of the real `varlink call` process",
        design="5/C20"),
}

ALL = ["C%02d" % i for i in range(1, 21)]
PENDING_REASON = "check not built yet in this round; see DESIGN.md section 5 for the planned model and theorems"


# later additions to the claims (theorems and ties added after the first build)
CHECKS["C01"]["text"] += (" The per-connection loop of listen(), with its bookkeeping regenerated from server.rs, writes the specification's output for every "
                          "segmentation (C01_listen_worker_realises_spec).")
CHECKS["C02"]["text"] += (" The caller that keeps its reader equals the unbounded caller for every capacity of handle()'s inner buffer; the reference slice caller "
                          "(test.rs, ping example) equals it within one 8192-byte block (beyond: known finding SliceCallerBeyondBlock); the listen() loop ends on every "
                          "input and writes the specification's output. Also run: both callers at block edges, a unit-wise upgraded handler over sockets, the repository's "
                          "own multiplex example under several segmentations.")
CHECKS["C02"]["note"] = COMMON_NOTE + "Both the careful caller (keeps its reader) and the reference slice caller are run and modelled."
CHECKS["C06"]["text"] += (" Over sockets: the listen() loop model ends on every input (also a peer closing mid-message) with the specification's output; an independent "
                          "request-shape oracle, late followers and truncated streams are run against listen().")
CHECKS["C11"]["text"] += (" The language theorem is proved in both directions, parse_idl s = POk i <-> RIdl i s, so an accept/reject or structural difference between "
                          "IDL::try_from and the model parser is reported as a failing input.")
CHECKS["C12"]["text"] += " The model parser never runs out of fuel (parse_idl_never_out_of_fuel)."
CHECKS["C17"]["text"] += (" The structs also round trip through text: de_text (print (ser r)) = r for every schema with distinct names (request/reply/info instances), "
                          "with sharpness witnesses for the depth and well-formedness hypotheses.")
CHECKS["C18"]["text"] += " The model keeps proxy.rs's single address variable; the cache discipline is regenerated from proxy.rs (tr/proxy.py)."
CHECKS["C19"]["text"] += (" A rejected call moves nobody and, for every history of one client, the consumed steps are exactly the canonical chain; the transition table and "
                          "the rejected-call discipline are regenerated from main.rs (tr/cert.py); histories are run through the real server and the extracted state machine.")
CHECKS["C01"]["text"] += " Replies are also collected through a writer that accepts only part of each buffer (short writes)."
CHECKS["C07"]["text"] += (" Streams are drained to their end (continuing errors and odd parameter shapes included) and followed by another call on the same connection; "
                          "errors of other interfaces that end in a standard short name stay VarlinkErrorReply.")
CHECKS["C08"]["text"] += " One corpus declares errors named like the org.varlink.service ones (InterfaceNotFound, MethodNotImplemented, ...)."
CHECKS["C09"]["text"] += " The build-script helper cargo_build() is run twice into one OUT_DIR (rebuild after an edit) and its file compared with generate()."
CHECKS["C13"]["text"] += " The repository's examples/example service is run with a neighbour that stops reading its replies."
CHECKS["C14"]["text"] += " Listen-level scenarios include max_worker_threads = 0; every accepted connection must get its reply."
CHECKS["C15"]["text"] += " Scenarios include max_worker_threads = 0."
CHECKS["C16"]["text"] += " Activation by a foreign activator (listening socket passed as descriptor 3, blocking or O_NONBLOCK, service without idle timeout) is a transport of its own."
CHECKS["C18"]["text"] += " Resolver-mode sequences also run against targets that serve one connection at a time."
CHECKS["C20"]["text"] += " Half of the cases run with --debug."
for _k in CHECKS:
    CHECKS[_k]["text"] += " Tie also: the text of the hand-modelled functions is pinned (tr/shapes.py) and every props file proves its pin."


def main():
    checks = []
    for pid in ALL:
        if pid not in CHECKS:
            continue
        c = CHECKS[pid]
        checks.append({
            "property_id": pid,
            "quick_cmd": "./vcheck check %s --tier quick" % pid,
            "thorough_cmd": "./vcheck check %s --tier thorough" % pid,
            "evidence_file": "/verif/evidence/%s.json" % pid,
            "replay_cmd_template": "./vcheck replay %s {path}" % pid,
            "engine": "coq+diff",
            "level_claimed": {"category": "proof", "text": c["text"], "design_ref": c["design"]},
            "level_note": c["note"],
            "technique": c["technique"],
        })
    m = {
        "version": 1,
        "setup_cmd": "./vcheck setup",
        "hooks": {
            "guard": "varlink_rust_verif",
            "enable": "RUSTFLAGS=\"--cfg varlink_rust_verif\" (set by the runner for the harness bins that need the probes)",
            "baseline_off_cmd": "/verif/run_baseline.sh",
            "source_commits": HOOK_COMMITS,
            "add_only": True,
        },
        "engines": [{"name": "coq+diff", "path": "/verif/vcheck", "serves_properties": [c["property_id"] for c in checks],
                     "kind_free_text": "Coq 8.16 theorems over executable models (coq/), regenerated constants (tr/), extracted OCaml driver (ml/) "
                                       "and Rust harness (harness/) for model/implementation correspondence; runner lib/*.py"}],
        "checks": checks,
        "not_applicable": [{"property_id": p, "reason": NA.get(p, PENDING_REASON)} for p in ALL if p not in CHECKS],
        "notes": "Every check regenerates coq/gen from /repo, re-checks its property theorems (Print Assumptions gated), rebuilds the harness from /repo's working tree and runs the correspondence.",
    }
    with open(os.path.join(VERIF, "MANIFEST.json"), "w") as f:
        json.dump(m, f, indent=1)
    print("wrote MANIFEST.json with %d checks" % len(checks))


HOOK_COMMITS = ["c7d5cf9"]
NA = {}

if __name__ == "__main__":
    main()
