"""Reads the token text the real generator emits (TokenStream::to_string) back into the list of
serde-derived struct / enum definitions, in order: the static half of the generator tie."""
import re

DERIVE = "# [derive (Serialize , Deserialize , Debug , PartialEq , Clone)] pub "


def parse_type(toks, i):
    """toks: list of tokens; returns (type-json, next index)"""
    t = toks[i]
    if t == "varlink":
        # varlink :: StringHashSet | varlink :: StringHashMap < T >
        assert toks[i + 1] == "::"
        name = toks[i + 2]
        if name == "StringHashSet":
            return "StringHashSet", i + 3
        assert name == "StringHashMap" and toks[i + 3] == "<"
        inner, j = parse_type(toks, i + 4)
        assert toks[j] == ">"
        return {"StringHashMap": inner}, j + 1
    if t == "serde_json":
        assert toks[i + 1] == "::" and toks[i + 2] == "Value"
        return "serde_json::Value", i + 3
    if t in ("Vec", "Option") and i + 1 < len(toks) and toks[i + 1] == "<":
        inner, j = parse_type(toks, i + 2)
        assert toks[j] == ">", toks[j]
        return {t: inner}, j + 1
    if t in ("bool", "i64", "f64", "String"):
        return t, i + 1
    return {"named": t[2:] if t.startswith("r#") else t}, i + 1


def tokenize(s):
    # split '>>' produced by the printer into two closers
    s = s.replace(">>", "> >").replace(">>", "> >")
    return s.split()


def parse_defs(text):
    out = []
    pos = 0
    while True:
        k = text.find(DERIVE, pos)
        if k < 0:
            break
        pos = k + len(DERIVE)
        m = re.match(r"(struct|enum) (\S+) \{", text[pos:])
        if not m:
            continue
        kind, name = m.group(1), m.group(2)
        name = name[2:] if name.startswith("r#") else name
        body_start = pos + m.end()
        depth = 1
        i = body_start
        while depth:
            c = text[i]
            if c == "{":
                depth += 1
            elif c == "}":
                depth -= 1
            i += 1
        body = text[body_start:i - 1].strip()
        pos = i
        if kind == "enum":
            vs = [v.strip() for v in body.split(",") if v.strip()]
            out.append({"name": name, "enum": [v[2:] if v.startswith("r#") else v for v in vs]})
            continue
        toks = tokenize(body)
        fields = []
        j = 0
        while j < len(toks):
            skip = False
            if toks[j] == "#":
                # # [serde (skip_serializing_if = "Option::is_none")]
                k2 = j
                while toks[k2] != "pub":
                    k2 += 1
                attr = " ".join(toks[j:k2])
                skip = 'skip_serializing_if = "Option::is_none"' in attr
                j = k2
            assert toks[j] == "pub", toks[j:j + 5]
            fname = toks[j + 1]
            fname = fname[2:] if fname.startswith("r#") else fname
            assert toks[j + 2] == ":"
            ty, j2 = parse_type(toks, j + 3)
            assert toks[j2] == ",", toks[j2]
            fields.append({"name": fname, "type": ty, "skip": skip})
            j = j2 + 1
        out.append({"name": name, "struct": fields})
    return out


def fn_names(text):
    """method names of the VarlinkInterface trait and the reply_* helpers"""
    m = re.search(r"pub trait VarlinkInterface \{(.*?)fn call_upgraded", text, re.S)
    methods = re.findall(r"fn (\S+) \(& self , call", m.group(1)) if m else []
    m2 = re.search(r"pub trait VarlinkCallError : varlink :: CallTrait \{(.*?)\} impl VarlinkCallError", text, re.S)
    replies = re.findall(r"fn (reply_\w+) \(& mut self", m2.group(1)) if m2 else []
    return methods, replies
