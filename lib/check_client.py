"""C07 (client connection: one call at a time, faithful outcomes) and the client halves of
C04 / C05: Coq transition-system proofs + correspondence through h_client."""
import itertools
import json
import random

from common import *
from svcgen import loads, DEFAULT_SVC

STD = {"org.varlink.service.InterfaceNotFound": ("InterfaceNotFound", "interface"),
       "org.varlink.service.InvalidParameter": ("InvalidParameter", "parameter"),
       "org.varlink.service.MethodNotFound": ("MethodNotFound", "method"),
       "org.varlink.service.MethodNotImplemented": ("MethodNotImplemented", "method")}


def fr(obj):
    if isinstance(obj, bytes):
        return obj + b"\0"
    return json.dumps(obj, separators=(",", ":"), ensure_ascii=False).encode("utf-8") + b"\0"


def reply_objects(rng):
    out = [{"parameters": {}}, {}, {"parameters": {"a": 1, "b": [1, "x", None]}}, {"parameters": None}, {"continues": False, "parameters": {"x": 5}},
           {"parameters": {"x": 5}}, {"parameters": {"x": "five"}}, {"parameters": [7]}, {"parameters": 7}, {"parameters": {"x": 2 ** 63}},
           {"error": "org.example.Custom"}, {"error": "org.example.Custom", "parameters": {"why": "é"}}, {"error": "", "parameters": {}},
           {"error": "org.varlink.service.InterfaceNotFoundX", "parameters": {"interface": "a"}},
           {"error": "org.varlink.service", "parameters": {"interface": "a"}}, {"error": None, "parameters": {"z": 1}},
           {"unknown": 1, "parameters": {"k": 1}}]
    # errors of other interfaces whose last component is one of the standard short names: not the standard errors
    for name, (kind, member) in STD.items():
        short = name.rsplit(".", 1)[1]
        for pre in ("org.varlink.resolver.", "org.example.", "x.", ".", "", "org.varlink.service.x.", "org.varlink.Service."):
            out.append({"error": pre + short, "parameters": {member: "the.arg", "hint": "h"}})
        out.append({"error": name + ".", "parameters": {member: "the.arg"}})
        out.append({"error": name.upper(), "parameters": {member: "the.arg"}})
    for name, (kind, member) in STD.items():
        out += [{"error": name, "parameters": {member: "the.arg"}}, {"error": name}, {"error": name, "parameters": {}},
                {"error": name, "parameters": {member: None}}, {"error": name, "parameters": {member: 7}},
                {"error": name, "parameters": {member: "x", "extra": [1]}}, {"error": name, "parameters": ["arr.arg"]},
                {"error": name, "parameters": []}, {"error": name, "parameters": ["a", "b"]}, {"error": name, "parameters": "str"},
                {"error": name, "parameters": {"other": "x"}}, {"error": name, "parameters": None},
                {"error": name, "parameters": {member: "é\n"}}]
    return out


GARBAGE = [b"not json", b'{"error":5}', b'{"continues":"yes"}', b"[]", b"", b'{"parameters":{"a":}', b"\xff\xfe", b'"str"', b"[null,null]",
           b'{"error":"a","error":"b"}']


def expected_outcome(obj):
    """independent reading of the property text for one final reply object on an idle connection"""
    err = obj.get("error")
    if err is None:
        p = obj.get("parameters")
        return ("ok", {} if p is None else p)
    if err in STD:
        kind, member = STD[err]
        p = obj.get("parameters")
        arg = ""
        if isinstance(p, dict) and isinstance(p.get(member), str):
            arg = p[member]
        elif isinstance(p, list) and len(p) == 1 and isinstance(p[0], str):
            arg = p[0]
        return ("err", kind, arg)
    return ("err", "VarlinkErrorReply", {k: v for k, v in obj.items() if k in ("continues", "error", "parameters") and v is not None})


def parse_out(o):
    if o in ("unit", "none"):
        return (o,)
    if o.startswith("ok:"):
        if o == "ok:typed":
            return ("ok", "typed")
        return ("ok", loads(unhx(o[3:]).decode("utf-8")))
    p = o.split(":")
    if p[0] == "err":
        if p[1] == "VarlinkErrorReply":
            return ("err", p[1], loads(unhx(p[2]).decode("utf-8")))
        if len(p) > 2:
            return ("err", p[1], unhx(p[2]).decode("utf-8"))
        return ("err", p[1])
    return ("?", o)


def same_client(a, b):
    fa, fb = fields(a), fields(b)
    if "outs" not in fa or "outs" not in fb:
        return False
    oa = [] if fa["outs"] == "-" else [parse_out(x) for x in fa["outs"].split(";")]
    ob = [] if fb["outs"] == "-" else [parse_out(x) for x in fb["outs"].split(";")]
    if oa != ob or fa.get("idle") != fb.get("idle"):
        return False
    sa = [loads(x.decode("utf-8")) for x in unhx(fa["sent"]).split(b"\0")[:-1]]
    sb = [loads(x.decode("utf-8")) for x in unhx(fb["sent"]).split(b"\0")[:-1]]
    return sa == sb


def prep(ck, prop_file):
    ref = regenerate(["WireGen.v", "SetGen.v"])
    for n, msg in ref:
        ck.tie_broken.append("translator refused %s: %s" % (n, msg))
    ck.props(prop_file)
    model_ok, log = build_driver()
    if not model_ok:
        ck.proof_broken.append("the executable model does not build:\n" + "\n".join(log.strip().splitlines()[-15:]))
    ok, log = build_harness(["h_client"])
    if not ok:
        ck.tie_broken.append("harness does not build: " + "\n".join(log.strip().splitlines()[-15:]))
    ck.trusted = ["Coq 8.16.1 kernel", "tr/wire.py (error-name table of From<Reply> for ErrorKind)",
                  "extraction + ml/driver.ml; harness/src/bin/h_client.rs (fake server on a socketpair, echo server, real listen server)",
                  "modelled not verified: atomicity of send() (it runs under the connection write lock), RwLock, BufReader"]
    return model_ok, ok


def run_client_cases(ck, lines, model_ok):
    impl = run_lines(harness_bin("h_client"), lines, shards=8, timeout=600)
    model = run_lines(DRIVER, lines, shards=8) if model_ok else {}
    return impl, model


def c07(ck):
    rng = random.Random(ck.seed)
    quick = ck.quick
    model_ok, ok = prep(ck, "C07.v")
    if not ok:
        return
    ck.rule = ("(a) every reply object (with/without error, parameters, continues; four standard names x parameter shapes; custom names; undecodable frames) as the answer to one call; "
               "(b) all operation sequences up to length %d over {call, more, next, oneway, recv} x two call objects against scripted reply streams, plus random longer ones with 4 objects; "
               "(c) 2..8 threads sharing one connection against an echo server with seeded yields; non-trivial = at least two operations; distinct by (reply stream, operations)") % (3 if quick else 4)
    lines, meta = [], {}
    n = 0
    robjs = reply_objects(rng)
    # (a) outcome mapping, one call per reply object
    for obj in robjs:
        for typed in (False, True):
            cid = "o%d" % n
            n += 1
            lines.append("%s client %s | %s call:0" % (cid, hx(fr(obj)), "newt" if typed else "new"))
            meta[cid] = ("outcome", obj, typed)
    for g in GARBAGE:
        cid = "o%d" % n
        n += 1
        lines.append("%s client %s | new call:0 new call:1" % (cid, hx(fr(g) + fr({"parameters": {"after": 1}}))))
        meta[cid] = ("garbage", g.hex(), False)
    # (b) operation sequences
    inboxes = [
        [{"continues": True, "parameters": {"i": 0}}, {"continues": True, "parameters": {"i": 1}}, {"parameters": {"i": 2}},
         {"parameters": {"second": 1}}, {"error": "org.varlink.service.MethodNotFound", "parameters": {"method": "m"}}, {"parameters": {"fourth": 1}}],
        [{"parameters": {"a": 1}}, {"continues": True, "parameters": {"b": 1}}, {"error": "org.example.E", "parameters": {"c": 1}}, {"parameters": {"d": 1}}],
        [{"continues": True, "error": "org.example.StreamErr"}, {"parameters": {"x": 1}}],
        [],
    ]
    alpha = ["call:0", "call:1", "more:0", "more:1", "next:0", "next:1", "oneway:0", "oneway:1", "recv:0", "recv:1"]
    for L in range(1, (3 if quick else 4) + 1):
        for combo in itertools.product(alpha, repeat=L):
            ib = inboxes[(hash(combo) + L) % 2] if L > 2 else inboxes[0]
            for inbox in ([ib] if L > 2 else inboxes[:3]):
                cid = "s%d" % n
                n += 1
                lines.append("%s client %s | new new %s" % (cid, hx(b"".join(fr(x) for x in inbox)), " ".join(combo)))
                meta[cid] = ("seq", inbox, list(combo))
    for _ in range(400 if quick else 6000):
        inbox = []
        for _ in range(rng.randint(0, 8)):
            c = rng.random()
            if c < 0.35:
                inbox.append({"continues": True, "parameters": {"i": rng.randint(0, 9)}})
            elif c < 0.9:
                inbox.append(rng.choice(robjs))
            else:
                inbox.append(rng.choice(GARBAGE))
        ops = ["%s:%d" % (rng.choice(["call", "more", "next", "next", "oneway", "recv", "upgrade"]), rng.randint(0, 3)) for _ in range(rng.randint(2, 12))]
        cid = "r%d" % n
        n += 1
        lines.append("%s client %s | new new new new %s" % (cid, hx(b"".join(fr(x) for x in inbox)), " ".join(ops)))
        meta[cid] = ("seq", inbox, ops)
    # (b') streams drained to their end: continuing items of every kind (successes, declared and standard errors with "continues": true,
    # odd parameter shapes), then the final reply, then another call on the same connection
    for i in range(len(robjs) + (60 if quick else 600)):
        if i < len(robjs):
            items = [dict(robjs[i], continues=True)] if i % 2 else [{"continues": True, "parameters": {"i": 0}}, dict(robjs[i], continues=True), {"continues": True, "parameters": {"i": 2}}]
            final = {"parameters": {"last": 1}} if i % 3 else robjs[i]
        else:
            items = [dict(rng.choice(robjs), continues=True) if rng.random() < 0.6 else {"continues": True, "parameters": {"i": j}} for j in range(rng.randint(1, 5))]
            final = rng.choice(robjs)
        inbox = items + [final, {"parameters": {"second": 1}}]
        ops = ["more:0"] + ["next:0"] * (len(items) + 2) + ["call:1"]
        cid = "d%d" % n
        n += 1
        lines.append("%s client %s | new new %s" % (cid, hx(b"".join(fr(x) for x in inbox)), " ".join(ops)))
        meta[cid] = ("drain", inbox, ops)
    # (b'') call objects that go out of scope: a stream abandoned after j of its replies, then other calls on the connection
    for i in range(40 if quick else 400):
        nrep = rng.randint(1, 5)
        items = [{"continues": True, "parameters": {"i": j}} for j in range(nrep)] + [{"parameters": {"i": nrep}}]
        taken = rng.randint(0, nrep + 1)
        inbox = items + [{"parameters": {"second": 1}}, {"parameters": {"third": 1}}]
        first = rng.choice(["more:0", "more:0", "call:0", "oneway:0"]) if i % 4 else "more:0"
        ops = [first] + (["next:0"] * taken if first == "more:0" else []) + ["drop:0"]
        for _ in range(rng.randint(1, 4)):
            ops.append("%s:%d" % (rng.choice(["call", "more", "next", "oneway", "recv"]), rng.randint(1, 3)))
        cid = "a%d" % n
        n += 1
        lines.append("%s client %s | new new new new %s" % (cid, hx(b"".join(fr(x) for x in inbox)), " ".join(ops)))
        meta[cid] = ("abandon", inbox, ops)
    impl, model = run_client_cases(ck, lines, model_ok)
    nd = 0
    for cid, m in meta.items():
        kind = m[0]
        ck.case(lines[int(cid[1:])].split(" ", 1)[1], nontrivial=True,
                sample={"kind": kind, "reply_stream": m[1] if kind != "garbage" else m[1], "ops": m[2]} if (kind == "seq" and len(m[2]) == 3 and len(ck.samples) < 4) else None)
        ck.count("kind=" + kind)
        a = impl[cid]
        if a.startswith("PANIC") or "outs=" not in a:
            ck.failures.append({"what": "client panicked / no result", "case": m[1:], "result": a[:200]})
            continue
        if cid in model and not same_client(a, model[cid]):
            nd += 1
            if nd <= 5:
                ck.tie_broken.append("model/implementation disagree on %s: impl=%s model=%s" % (json.dumps(m[1:], default=str)[:300], a[:400], model[cid][:400]))
        f = fields(a)
        outs = [] if f["outs"] == "-" else [parse_out(x) for x in f["outs"].split(";")]
        sent = [loads(x.decode("utf-8")) for x in unhx(f["sent"]).split(b"\0")[:-1]]
        if kind == "outcome":
            obj, typed = m[1], m[2]
            exp = expected_outcome(obj)
            got = outs[0]
            if typed:
                # typed reply: success implies no error member; an error member implies the mapped error
                if got[0] == "ok" and obj.get("error") is not None:
                    ck.failures.append({"what": "a reply with an error member was returned as success", "reply": obj})
                if obj.get("error") is not None and got != loads_tuple(exp):
                    ck.failures.append({"what": "error reply not mapped to the error kind its name determines", "reply": obj, "got": list(got)})
            else:
                if got != loads_tuple(exp):
                    ck.failures.append({"what": "call outcome differs from the reply (success iff no error member; kind by error name; parameter carried)",
                                        "reply": obj, "got": list(got), "expected": list(exp)})
            if f.get("idle") != "1":
                ck.failures.append({"what": "connection not usable again after the final reply", "reply": obj})
        elif kind == "drain":
            inbox = m[1]
            exp = [("unit",)] + [loads_tuple(expected_outcome(r)) for r in inbox[:-1]] + [("none",), ("ok", {"second": 1})]
            if outs != exp or f.get("idle") != "1":
                k = next((j for j in range(min(len(outs), len(exp))) if outs[j] != exp[j]), min(len(outs), len(exp)))
                ck.failures.append({"what": "a reply stream is not reported reply by reply up to its final reply (each continuing reply, error or not, is one outcome and keeps the "
                                            "connection with the call; the final one gives it back so that the next call goes through)",
                                    "reply_stream": inbox, "ops": m[2], "first_difference_at_op": k, "got": [list(o) for o in outs[k:k + 2]],
                                    "expected": [list(o) for o in exp[k:k + 2]], "idle_at_end": f.get("idle")})
        elif kind == "abandon":
            inbox, ops = m[1], m[2]
            d = ops.index("drop:0")
            nrep = len(inbox) - 2
            complete = not ops[0].startswith("more") or (d - 1) >= nrep
            # the stream was abandoned with replies outstanding: afterwards nobody may be handed a reply and nothing may be written
            if not complete:
                later = outs[d + 1:]
                handed = [list(o) for o in later if o[0] == "ok"]
                n_sent_before = 1
                if handed or len(sent) != n_sent_before or f.get("idle") != "0":
                    ck.failures.append({"what": "a call object that still had replies outstanding went out of scope; afterwards another call on the connection was handed a "
                                                "reply / wrote its request (the outstanding replies belong to nobody else; the connection must stay busy)",
                                        "reply_stream": inbox, "ops": ops, "outs": [list(o) for o in outs], "requests_written": [s_.get("method") for s_ in sent],
                                        "idle_at_end": f.get("idle")})
        elif kind == "seq":
            ops = m[2]
            # writes: exactly one request per send that did not fail with busy / called-already, in order
            exp_sent = []
            for op, o in zip(ops, outs):
                name, k = op.split(":")
                if name in ("call", "more", "oneway", "upgrade"):
                    if o[0] == "err" and o[1] in ("ConnectionBusy", "MethodCalledAlready"):
                        continue
                    exp_sent.append("org.example.M" + k)
            if [s.get("method") for s in sent] != exp_sent:
                ck.failures.append({"what": "bytes written do not match the sends that succeeded (a busy or repeated send must not write)",
                                    "reply_stream": m[1], "ops": ops, "outs": [list(o) for o in outs], "sent": sent})
            # a call object is sent at most once
            seen = set()
            for op, o in zip(ops, outs):
                name, k = op.split(":")
                if name in ("call", "more", "oneway", "upgrade"):
                    if k in seen and not (o[0] == "err" and o[1] == "MethodCalledAlready"):
                        ck.failures.append({"what": "a call object was sent twice", "ops": ops, "outs": [list(o) for o in outs]})
                    seen.add(k)
    # (c) threads
    tl = []
    for i in range(6 if quick else 60):
        tl.append("t%d threads %d %d %d" % (i, rng.choice([2, 3, 4, 8]), rng.choice([5, 20, 40]), rng.randrange(1 << 30)))
    timpl = run_lines(harness_bin("h_client"), tl, shards=3, timeout=600)
    for cid, res in timpl.items():
        ck.case(tl[int(cid[1:])])
        ck.count("thread_runs")
        f = fields(res)
        if "logs" not in f:
            ck.failures.append({"what": "thread run failed", "result": res[:300]})
            continue
        logs = json.loads(unhx(f["logs"]).decode("utf-8"))
        received = json.loads(unhx(f["received"]).decode("utf-8"))
        recv_tags = [json.dumps(r.get("parameters"), sort_keys=True) for r in received]
        if len(set(recv_tags)) != len(recv_tags):
            ck.failures.append({"what": "a request reached the server twice", "case": tl[int(cid[1:])]})
        nbusy = 0
        for tlog in logs:
            for e in tlog:
                tag, r = e["tag"], e["res"]
                tkey = json.dumps(tag, sort_keys=True)
                errs = [r.get("err")] if "err" in r else []
                busy = any(x == "err:ConnectionBusy" for x in errs)
                if busy:
                    nbusy += 1
                    if tkey in recv_tags:
                        ck.failures.append({"what": "a call that failed with ConnectionBusy wrote bytes", "tag": tag})
                    continue
                if tkey not in recv_tags:
                    ck.failures.append({"what": "a call that did not fail busy never reached the server", "tag": tag, "res": r})
                items = []
                if r["op"] == "call":
                    items = [r]
                elif r["op"] == "more":
                    items = r.get("items", [])
                    exp_n = 3
                    if len(items) != exp_n:
                        ck.failures.append({"what": "more iteration did not yield every continues reply and the final one", "tag": tag, "items": items})
                for it in items:
                    if "ok" in it:
                        if it["ok"].get("echo") != tag:
                            ck.failures.append({"what": "a reply was delivered to a call other than the one that requested it", "tag": tag, "got": it})
                    elif "err" in it:
                        if not (tag["fail"] and it["err"].startswith("err:VarlinkErrorReply")):
                            ck.failures.append({"what": "unexpected error for a call on a shared connection", "tag": tag, "got": it})
                        else:
                            rep = json.loads(unhx(it["err"].split(":")[2]).decode("utf-8"))
                            if rep.get("parameters", {}).get("echo") != tag:
                                ck.failures.append({"what": "an error reply was delivered to another call", "tag": tag, "got": rep})
        ck.count("busy_errors_observed", nbusy)
        if not f.get("final", "").startswith("ok:"):
            ck.failures.append({"what": "connection not usable after all calls completed", "final": f.get("final")})


def loads_tuple(t):
    from svcgen import canon_num
    return tuple(canon_num(x) if not isinstance(x, str) else x for x in t)


def c05_client(ck):
    """iteration of `more` calls against scripted reply streams"""
    rng = random.Random(ck.seed + 5)
    quick = ck.quick
    model_ok, log = build_driver()
    ok, log = build_harness(["h_client"])
    if not ok:
        ck.tie_broken.append("client harness does not build")
        return
    lines, meta = [], {}
    n = 0
    ks = list(range(0, 7)) + ([] if quick else [10, 50, 200])
    if not quick:
        ks += [rng.randint(7, 200) for _ in range(10)]
    finals = [{"parameters": {"final": True}}, {"error": "org.example.Done", "parameters": {"why": 1}},
              {"error": "org.varlink.service.InvalidParameter", "parameters": {"parameter": "p"}}, {"continues": False}]
    followers = [("call:1", [{"parameters": {"next": 1}}]), ("oneway:1 call:2", [{"parameters": {"next": 2}}]),
                 ("more:1 next:1 next:1 next:1", [{"continues": True, "parameters": {"m": 0}}, {"parameters": {"m": 1}}]), ("", [])]
    for k in ks:
        for fin in finals:
            for fops, fframes in followers:
                conts = [{"continues": True, "parameters": {"i": i}} for i in range(k)]
                inbox = b"".join(fr(x) for x in conts + [fin] + fframes)
                ops = "new new new more:0 " + " ".join(["next:0"] * (k + 3)) + " " + fops
                cid = "i%d" % n
                n += 1
                lines.append("%s client %s | %s" % (cid, hx(inbox), ops))
                meta[cid] = (k, fin, fops, fframes)
    # error replies that carry continues:true in the middle of a stream (a method may report one failed item and go on):
    # the iteration yields them as errors and keeps going to the final reply
    mid = {}
    for pos in (0, 1, 2):
        for fin in finals[:2]:
            stream = [{"continues": True, "parameters": {"i": i}} for i in range(3)]
            stream.insert(pos, {"continues": True, "error": "org.example.Skipped", "parameters": {"at": pos}})
            inbox = b"".join(fr(x) for x in stream + [fin] + [{"parameters": {"next": 1}}])
            cid = "e%d" % n
            n += 1
            lines.append("%s client %s | new new new more:0 %s call:1" % (cid, hx(inbox), " ".join(["next:0"] * 7)))
            mid[cid] = (pos, stream, fin)
    # other call objects trying to use the connection while a stream is running (from the loop body, or another thread): the
    # stream's owner still gets every reply in order, the others are refused and get none of them
    inter = {}
    for k in (2, 3, 5):
        for _ in range(6 if quick else 40):
            stream = [{"continues": True, "parameters": {"i": i}} for i in range(k)] + [{"parameters": {"final": True}}]
            ops = ["more:0"]
            for i in range(k + 1):
                for _j in range(rng.randint(0, 2)):
                    ops.append("%s:%d" % (rng.choice(["call", "more", "oneway", "next", "recv"]), rng.randint(1, 2)))
                ops.append("next:0")
            ops.append("next:0")
            cid = "x%d" % n
            n += 1
            lines.append("%s client %s | new new new %s" % (cid, hx(b"".join(fr(x) for x in stream)), " ".join(ops)))
            inter[cid] = (stream, ops)
    impl, model = run_client_cases(ck, lines, model_ok)
    nd = 0
    for cid, (stream, ops) in inter.items():
        ck.case("interloper|" + " ".join(ops))
        ck.count("client_iteration_with_interlopers")
        a = impl[cid]
        if "outs=" not in a:
            ck.failures.append({"what": "client iteration: no result", "result": a[:200]})
            continue
        outs = [parse_out(x) for x in fields(a)["outs"].split(";")]
        own = [o for op, o in zip(ops, outs) if op == "next:0"]
        others = [o for op, o in zip(ops, outs) if not op.endswith(":0")]
        want = [loads_tuple(expected_outcome(y)) for y in stream] + [("none",)]
        if own != want or any(o[0] == "ok" for o in others):
            ck.failures.append({"what": "while a more call was being iterated, other call objects on the same connection were not refused / took replies of the stream: "
                                        "the iteration did not yield every reply in order", "stream": stream, "ops": ops, "outs": [list(o) for o in outs]})
    for cid, (pos, stream, fin) in mid.items():
        ck.case("miderr|%d|%s" % (pos, json.dumps(fin)))
        ck.count("client_iteration_mid_stream_error")
        a = impl[cid]
        if "outs=" not in a:
            ck.failures.append({"what": "client iteration: no result", "result": a[:200]})
            continue
        if cid in model and not same_client(a, model[cid]):
            nd += 1
            if nd <= 3:
                ck.tie_broken.append("client model/implementation disagree on a stream with a continuing error reply: impl=%s model=%s" % (a[:300], model[cid][:300]))
        outs = [parse_out(x) for x in fields(a)["outs"].split(";")]
        want = [loads_tuple(expected_outcome(y)) for y in stream + [fin]] + [("none",), ("none",)]
        if outs[0] != ("unit",) or outs[1:8] != want:
            ck.failures.append({"what": "iterating a more call does not yield every continues reply in order (an error reply that carries continues:true "
                                        "does not end the stream), then the final reply, then end", "stream": stream, "final": fin, "got": [list(x) for x in outs[:9]]})
        elif outs[8:] != [("ok", {"next": 1})]:
            ck.failures.append({"what": "connection not free for the next call after the iteration ended", "stream": stream, "got": [list(x) for x in outs[8:]]})
    for cid, (k, fin, fops, fframes) in meta.items():
        ck.case("iter|%d|%s|%s" % (k, json.dumps(fin), fops), nontrivial=True,
                sample={"continues_replies": k, "final": fin, "then": fops} if k == 2 and len(ck.samples) < 5 else None)
        ck.count("client_iteration_cases")
        a = impl[cid]
        if "outs=" not in a:
            ck.failures.append({"what": "client iteration: no result", "k": k, "result": a[:200]})
            continue
        if cid in model and not same_client(a, model[cid]):
            nd += 1
            if nd <= 3:
                ck.tie_broken.append("client model/implementation disagree on iteration k=%d final=%s: impl=%s model=%s" % (k, fin, a[:300], model[cid][:300]))
        outs = [parse_out(x) for x in fields(a)["outs"].split(";")]
        it = outs[1:1 + k + 3]
        want = [("ok", {"i": i}) for i in range(k)] + [loads_tuple(expected_outcome(fin))] + [("none",), ("none",)]
        if outs[0] != ("unit",) or it != want:
            ck.failures.append({"what": "iterating a more call does not yield every continues reply in order, then the final reply, then end",
                                "k": k, "final": fin, "got": [list(x) for x in outs[:k + 4]]})
        rest = outs[1 + k + 3:]
        if fops == "call:1" and rest != [("ok", {"next": 1})]:
            ck.failures.append({"what": "connection not free for the next call after the iteration ended", "k": k, "final": fin, "got": [list(x) for x in rest]})
        if fops.startswith("oneway") and rest != [("unit",), ("ok", {"next": 2})]:
            ck.failures.append({"what": "connection not free (oneway then call) after the iteration ended", "k": k, "got": [list(x) for x in rest]})
        if fops.startswith("more") and rest != [("unit",), ("ok", {"m": 0}), ("ok", {"m": 1}), ("none",)]:
            ck.failures.append({"what": "second more iteration after the first ended is wrong", "k": k, "got": [list(x) for x in rest]})


def c04_client(ck):
    """interleavings of oneway and normal calls on one connection against the real server"""
    rng = random.Random(ck.seed + 4)
    quick = ck.quick
    ok, log = build_harness(["h_client"])
    if not ok:
        ck.tie_broken.append("client harness does not build")
        return
    svc = DEFAULT_SVC
    lines, meta = [], {}
    seqs = []
    for L in range(1, 5 if quick else 6):
        for combo in itertools.product(["call", "oneway"], repeat=L):
            seqs.append(list(combo))
    for _ in range(20 if quick else 300):
        seqs.append([rng.choice(["call", "oneway", "oneway", "more"]) for _ in range(rng.randint(3, 14))])
    for n, seq in enumerate(seqs):
        ops = []
        for nm in seq:
            sc = {"call": rng.choice(["r", "e", "r"]), "oneway": rng.choice(["r", "e", "", "r,r"]), "more": "c1,r,r,c0,r"}[nm]
            ops.append("%s:%s" % (nm, sc))
        cid = "w%d" % n
        lines.append("%s real %s | %s" % (cid, svc.tokens(), " ".join(ops)))
        meta[cid] = ops
    impl = run_lines(harness_bin("h_client"), lines, shards=6, timeout=900)
    for cid, ops in meta.items():
        ck.case("real|" + " ".join(ops), nontrivial=len(ops) > 1, sample={"client_ops_against_real_server": ops} if len(ops) == 4 and len(ck.samples) < 6 else None)
        ck.count("client_oneway_interleavings")
        a = impl[cid]
        if "outs=" not in a:
            ck.failures.append({"what": "client/real server run failed", "ops": ops, "result": a[:200]})
            continue
        outs = [parse_out(x) for x in fields(a)["outs"].split(";")]
        i = 0
        for n, op in enumerate(ops):
            nm, sc = op.split(":")
            if nm == "oneway":
                if outs[i] != ("unit",):
                    ck.failures.append({"what": "oneway call did not return right after sending", "ops": ops, "got": [list(x) for x in outs]})
                    break
                i += 1
            elif nm == "call":
                o = outs[i]
                i += 1
                tag = o[1].get("tag") if o[0] == "ok" else (o[2].get("parameters", {}).get("tag") if o[0] == "err" and len(o) > 2 and isinstance(o[2], dict) else None)
                if tag != n:
                    ck.failures.append({"what": "the call following oneway calls did not receive its own reply (reply stream misaligned)",
                                        "ops": ops, "position": n, "got": [list(x) for x in outs]})
                    break
            else:
                grp = outs[i:i + 4]
                i += 4
                tags = [g[1].get("tag") for g in grp[:3] if g[0] == "ok"]
                if tags != [n, n, n] or grp[3:] != [("none",)]:
                    ck.failures.append({"what": "more call after oneway calls did not receive its own replies", "ops": ops, "position": n,
                                        "got": [list(x) for x in outs]})
                    break


CHECKS = {"C07": c07}
