"""C13 (concurrent connections independent), C14 (pool bound / no stranding), C15 (listen loop)."""
import json
import random

from common import *
from svcgen import *


def prep(ck, prop_file, bins, hooks_bins=()):
    ref = regenerate(["WireGen.v", "SetGen.v", "PoolGen.v"])
    for n, msg in ref:
        ck.tie_broken.append("translator refused %s: %s" % (n, msg))
    ck.props(prop_file)
    model_ok, log = build_driver()
    if not model_ok:
        ck.proof_broken.append("the executable model does not build against the regenerated sources:\n" + "\n".join(log.strip().splitlines()[-15:]))
    ok = True
    if bins:
        ok1, log = build_harness(list(bins))
        if not ok1:
            ck.tie_broken.append("harness does not build: " + "\n".join(log.strip().splitlines()[-15:]))
        ok = ok and ok1
    if hooks_bins:
        ok2, log = build_harness(list(hooks_bins), hooks=True)
        if not ok2:
            ck.tie_broken.append("hooked harness does not build: " + "\n".join(log.strip().splitlines()[-15:]))
        ok = ok and ok2
    ck.trusted = ["Coq 8.16.1 kernel", "tr/pool.py (growth condition, counter placement, initial size, drop, accept-loop arithmetic from varlink/src/server.rs)",
                  "extraction + ml/driver.ml (state-space search of the extracted LTS)", "harness/src/bin/h_pool.rs (cfg probes), h_service.rs (listen runs)",
                  "modelled not verified: mpsc FIFO, Mutex/RwLock atomicity at lock granularity, thread spawn/join, select()/accept timing"]
    return model_ok, ok


def c14(ck):
    rng = random.Random(ck.seed)
    quick = ck.quick
    model_ok, ok = prep(ck, "C14.v", (), ("h_pool",))
    ck.rule = ("model: complete breadth-first enumeration of the extracted pool LTS (as configured by the regenerated constants) for initial 1..3, max 1..4, up to %d connections, "
               "checking bound and non-stranding in every state; implementation: bursts of long-lived jobs on the real pool with workers held at the dequeued/start probes or free, "
               "initial 1..3 x max 1..4 x 1..6 jobs, and free-running random jobs with the invariant checked at every probe; non-trivial = more than one job; distinct by configuration")  % (4 if quick else 5)
    # model state space
    states = trans = 0
    if model_ok:
        lines = []
        for ini in (1, 2, 3):
            for mx in (1, 2, 3, 4):
                for nj in ((2, 4) if quick else (1, 2, 3, 4, 5)):
                    lines.append("b_%d_%d_%d pool_bfs %d %d %d" % (ini, mx, nj, ini, mx, nj))
        res = run_lines(DRIVER, lines, shards=12, timeout=900)
        for cid, r in res.items():
            f = fields(r)
            ck.case("bfs" + cid)
            if "states" not in f:
                ck.tie_broken.append("state-space search failed: " + r[:200])
                continue
            states += int(f["states"])
            trans += int(f["transitions"])
            if f["violation"] != "none":
                kind, tr = f["violation"].split(":", 1)
                ck.proof_broken.append("the pool model regenerated from the source reaches a state violating %s (configuration %s): schedule %s" % (
                    {"bound": "the bound", "strand": "non-stranding"}[kind], cid, tr))
    ck.extra["states"] = states
    ck.extra["transitions"] = trans
    if not ok:
        return
    lines, meta = [], {}
    n = 0
    for ini in (1, 2, 3):
        for mx in (1, 2, 3, 4):
            for nj in ((1, 2, 3, 5) if quick else (1, 2, 3, 4, 5, 6)):
                for hold in ("none", "dequeued", "start"):
                    cid = "p%d" % n
                    n += 1
                    lines.append("%s burst %d %d %d %s" % (cid, ini, mx, nj, hold))
                    meta[cid] = ("burst", ini, mx, nj, hold)
    for _ in range(12 if quick else 120):
        ini, mx, nj = rng.randint(1, 3), rng.randint(1, 5), rng.randint(20, 300)
        cid = "p%d" % n
        n += 1
        lines.append("%s free %d %d %d %d" % (cid, ini, mx, nj, rng.randrange(1 << 30)))
        meta[cid] = ("free", ini, mx, nj, "")
    res = run_lines(harness_bin("h_pool", hooks=True), lines, shards=8, timeout=900)
    nprobe = 0
    for cid, m in meta.items():
        kind, ini, mx, nj, hold = m
        ck.case(lines[int(cid[1:])].split(" ", 1)[1], nontrivial=nj > 1,
                sample={"mode": kind, "initial": ini, "max": mx, "jobs": nj, "hold": hold} if len(ck.samples) < 5 and nj == 3 else None)
        ck.count("mode=%s" % kind)
        r = res[cid]
        f = fields(r)
        cfg = {"initial": ini, "max": mx, "jobs": nj, "workers_held_at": hold}
        if kind == "burst":
            if "max_active" not in f:
                ck.failures.append({"what": "pool run failed", "config": cfg, "result": r[:200]})
                continue
            if int(f["max_active"]) > mx or int(f["max_workers_seen"]) > mx:
                ck.failures.append({"what": "more than the configured maximum of connections were served concurrently", "config": cfg,
                                    "max_concurrent": int(f["max_active"]), "workers": int(f["max_workers_seen"])})
            want = min(nj, mx)
            if int(f["started_without_help"]) < want:
                ck.failures.append({"what": "an accepted connection was left waiting although fewer than the maximum were in service "
                                            "(nothing finished, nothing further arrived)", "config": cfg,
                                    "started": int(f["started_without_help"]), "expected": want, "workers": int(f["workers_final"])})
            if int(f["started_total"]) != nj or int(f["active_end"]) != 0:
                ck.failures.append({"what": "dropping the pool did not run every accepted job to completion", "config": cfg, "result": r[:300]})
        else:
            if "over" not in f:
                ck.failures.append({"what": "pool run failed", "config": cfg, "result": r[:200]})
                continue
            if f["over"] == "1" or int(f["max_workers_seen"]) > mx or int(f["max_active"]) > mx:
                ck.failures.append({"what": "bound exceeded in a free run", "config": cfg, "result": r[:300]})
            if int(f["done"]) != nj:
                ck.failures.append({"what": "not every job ran to completion before drop returned", "config": cfg, "done": int(f["done"])})
            # the invariant at every `executed` probe (values read by the acceptor itself): workers <= max and
            # min(max, counter + 1) <= workers
            for ev in f.get("trace", "").split(","):
                p = ev.split(":")
                if len(p) == 4 and p[0] == "executed":
                    nprobe += 1
                    c, w = int(p[1]), int(p[2])
                    if w > mx or min(mx, c + 1) > w:
                        ck.failures.append({"what": "pool invariant violated at a probe (workers <= max and min(max, counter+1) <= workers)",
                                            "config": cfg, "counter": c, "workers": w})
                        break
    ck.extra["traces_validated_against_impl"] = nprobe
    # the same two clauses through varlink::listen itself (the configuration has to reach the pool as given): overlapping
    # long-lived connections; the last one is short, so when it is served shows whether it had to wait
    ok3, log3 = build_harness(["h_service"])
    if not ok3:
        ck.tie_broken.append("harness does not build: " + log3[-300:])
        return
    from svcgen import DEFAULT_SVC, make, enc
    okr = hx(enc(make("ok", "-", 1)))
    sc = [("listen_1_4_three_overlapping", 1, 4, ["0:1500:" + okr, "150:1500:" + okr, "300:100:" + okr], "served_early"),
          ("listen_1_2_two_overlapping", 1, 2, ["0:1200:" + okr, "200:100:" + okr], "served_early"),
          ("listen_3_2_third_waits", 3, 2, ["0:1500:" + okr, "150:1500:" + okr, "300:100:" + okr], "waits"),
          ("listen_2_1_second_waits", 2, 1, ["0:1200:" + okr, "250:100:" + okr], "waits"),
          # max_worker_threads = 0 is a legal value of the configuration field: connections are still served (one at a time)
          # (initial_worker_threads = 0 is documented to panic and is not a configuration)
          ("listen_1_0_second_waits", 1, 0, ["0:1200:" + okr, "250:100:" + okr], "waits"),
          ("listen_3_0_single", 3, 0, ["0:200:" + okr], "waits"),
          # connections whose requests are refused (method without interface part, unknown interface, garbage) occupy a worker
          # no longer than any other: with max = 2, two of them, then two ordinary ones - all four are answered or closed
          ("listen_1_2_after_refused_requests", 1, 2, ["0:100:" + hx(enc(req("GetInfo"))), "50:100:" + hx(enc(req("nodots", {"a": 1}))),
                                                     "400:100:" + okr, "450:100:" + okr], "all"),
          ("listen_1_1_after_garbage", 1, 1, ["0:100:" + hx(b"garbage\0"), "300:100:" + okr], "later_served")]
    lines = ["l%d listen_run 0 2600 %d %d %s | %s" % (i, ini, mx, DEFAULT_SVC.tokens(), " ".join(h)) for i, (_, ini, mx, h, _) in enumerate(sc)]
    res = run_lines(harness_bin("h_service"), lines, shards=len(lines), timeout=300, env=dict(ENV, VH_TMP=os.path.join(BUILD, "tmp")))
    for i, (name, ini, mx, h, kind) in enumerate(sc):
        r = res.get("l%d" % i, "")
        ck.case("listen|" + name)
        ck.count("listen_level_scenarios")
        f = fields(r)
        conns = [] if f.get("conns", "-") == "-" else f["conns"].split(";")
        if len(conns) != len(h) or not all(c.startswith("conn@") for c in conns):
            ck.failures.append({"what": "listen-level pool scenario did not run", "scenario": name, "result": r[:300]})
            continue
        closed = [int(c.split(":")[1].split("@")[1]) for c in conns]
        unanswered = [k for k, c in enumerate(conns) if len(c.split(":")) < 3 or c.split(":")[2] in ("", "-")]
        if kind == "later_served":
            unanswered = [k for k in unanswered if k != 0]      # (the garbage itself gets no reply)
        if unanswered:
            ck.failures.append({"what": "a connection accepted by listen() was never served: it got no reply to its request", "scenario": name,
                                "initial_worker_threads": ini, "max_worker_threads": mx, "connections (connect ms : hold ms)": [x.rsplit(":", 1)[0] for x in h],
                                "unanswered_connections": unanswered, "result": r[:300]})
            continue
        first_end = int(h[0].split(":")[0]) + int(h[0].split(":")[1])
        last = closed[-1]
        desc = {"scenario": name, "initial_worker_threads": ini, "max_worker_threads": mx, "connections (connect ms : hold ms)": [x.rsplit(":", 1)[0] for x in h],
                "closed_at_ms": closed}
        if kind == "served_early" and last > first_end - 300:
            ck.failures.append(dict(desc, what="an accepted connection had to wait for another one to finish although fewer than max_worker_threads were in service"))
        if kind == "waits" and last < first_end - 200:
            ck.failures.append(dict(desc, what="more than max_worker_threads connections were served concurrently"))


def c15(ck):
    rng = random.Random(ck.seed)
    quick = ck.quick
    model_ok, ok = prep(ck, "C15.v", ("h_service",), ())
    if not ok:
        return
    svc = DEFAULT_SVC
    ck.rule = ("configurations {idle_timeout 0/1/2 s} x {stop flag absent / set before, while, after connections} x {initial, max workers} x connection histories "
               "(none; arriving just before the deadline; long-lived across several deadlines; closing at the deadline; steady arrivals < 100 ms apart while the flag is set; "
               "streaming reply in flight when the flag is set) run against varlink::listen on a filesystem socket, with one-sided timing bounds; "
               "model: the same scenarios as event traces through the accept-loop model; non-trivial = at least one connection or a stop flag; distinct by scenario")
    ok_req = hx(enc(make("ok", "-", 1)))
    slow_stream = hx(enc(req("org.example.a.Run", {"script": ["c1", "r", "z", "z", "r", "z", "z", "c0", "r"], "tag": "s"}, more=True)))
    sc = []
    # (name, idle, stop_at, initial, max, history, expectations)
    sc.append(("idle1_none", 1, None, 1, 4, [], {"ret": "Timeout", "not_before": 950, "not_after": 2300}))
    sc.append(("idle2_none", 2, None, 1, 4, [], {"ret": "Timeout", "not_before": 1950, "not_after": 3300}))
    sc.append(("idle1_conn_before_deadline", 1, None, 1, 4, ["800:100:" + ok_req], {"ret": "Timeout", "not_before": 1750, "not_after": 3200, "complete": 1}))
    sc.append(("idle1_longlived", 1, None, 1, 4, ["100:2600:" + ok_req], {"ret": "Timeout", "not_before": 2650, "not_after": 5000, "complete": 1}))
    sc.append(("idle1_close_at_deadline", 1, None, 2, 2, ["50:1000:" + ok_req], {"ret": "Timeout", "not_before": 1000, "not_after": 3400, "complete": 1}))
    sc.append(("idle1_two_overlapping", 1, None, 1, 2, ["100:900:" + ok_req, "700:900:" + ok_req], {"ret": "Timeout", "not_before": 1650, "not_after": 4000, "complete": 2}))
    sc.append(("stop_before", 0, 0, 1, 4, [], {"ret": "ok", "not_after": 600}))
    sc.append(("stop_while_idle", 0, 400, 1, 4, [], {"ret": "ok", "not_before": 390, "not_after": 1000}))
    sc.append(("stop_idle1", 1, 300, 1, 4, [], {"ret": "ok", "not_before": 290, "not_after": 900}))
    sc.append(("stop_after_conn", 0, 500, 1, 4, ["100:100:" + ok_req], {"ret": "ok", "not_before": 490, "not_after": 1100, "complete": 1}))
    sc.append(("stop_with_open_conn", 0, 300, 1, 4, ["100:700:" + ok_req], {"ret": "ok", "not_before": 790, "not_after": 1600, "complete": 1}))
    sc.append(("stop_inflight_stream", 0, 150, 1, 4, ["100:10:" + slow_stream], {"ret": "ok", "not_before": 250, "not_after": 1500, "complete": 3}))
    sc.append(("stop_steady_arrivals", 0, 400, 1, 4, ["steady:0:2500:30"], {"ret": "ok", "not_before": 390, "not_after": 900}))
    sc.append(("stop_idle2_steady", 2, 500, 2, 3, ["steady:100:2500:40"], {"ret": "ok", "not_before": 490, "not_after": 1000}))
    sc.append(("idle1_stop_never", 1, 60000, 1, 4, [], {"ret": "Timeout", "not_before": 950, "not_after": 2400}))
    # max_worker_threads = 0 (a legal value): accepted connections are served and accounted for as with any other limit
    sc.append(("stop_max0_conn", 0, 500, 1, 0, ["100:100:" + ok_req], {"ret": "ok", "not_before": 490, "not_after": 1100, "complete": 1}))
    sc.append(("idle1_max0_conn", 1, None, 1, 0, ["300:100:" + ok_req], {"ret": "Timeout", "not_before": 1250, "not_after": 3200, "complete": 1}))
    # a handled signal reaches the thread blocked in listen()'s wait: not a timeout - the idle period still counts from the
    # last new connection (here one that arrives after the signal)
    sc.append(("idle1_signal_nobody", 1, None, 1, 4, ["signal:300"], {"ret": "Timeout", "not_before": 950, "not_after": 2300}))
    sc.append(("stop_signal_nobody", 0, 1000, 1, 4, ["signal:300"], {"ret": "ok", "not_before": 990, "not_after": 1700}))
    sc.append(("idle2_three_signals", 2, None, 1, 4, ["signal:300", "signal:900", "signal:1500"], {"ret": "Timeout", "not_before": 1950, "not_after": 3400}))
    sc.append(("idle2_signal_then_conn", 2, None, 1, 4, ["signal:300", "800:100:" + ok_req], {"ret": "Timeout", "not_before": 2750, "not_after": 5200, "complete": 1}))
    sc.append(("stop_idle1_signals", 1, 60000, 1, 4, ["signal:150", "signal:250", "signal:350", "600:100:" + ok_req],
               {"ret": "Timeout", "not_before": 1550, "not_after": 3400, "complete": 1}))
    # more connections open than max_worker_threads: the one waiting in the queue is an accepted, unfinished connection like
    # any other - the server is not idle while it is being served later on, and a newcomer is still accepted and served
    sc.append(("idle1_max1_queued_conn_outlives_first", 1, None, 1, 1, ["0:600:" + ok_req, "200:2300:" + ok_req, "2100:100:" + ok_req],
               {"ret": "Timeout", "not_before": 3050, "not_after": 5200, "complete": 3}))
    sc.append(("idle1_max2_two_queued", 1, None, 2, 2, ["0:500:" + ok_req, "50:500:" + ok_req, "150:1900:" + ok_req, "200:1900:" + ok_req, "1700:100:" + ok_req],
               {"ret": "Timeout", "not_before": 2650, "not_after": 5000, "complete": 5}))
    # a stop flag that is present but never set changes the poll quantum: the idle countdown must still restart with
    # every accepted connection
    sc.append(("idle1_stopflag_conn_midwindow", 1, 60000, 1, 4, ["700:100:" + ok_req], {"ret": "Timeout", "not_before": 1650, "not_after": 3300, "complete": 1}))
    sc.append(("idle2_stopflag_two_conns", 2, 60000, 1, 4, ["1500:100:" + ok_req, "2600:100:" + ok_req],
               {"ret": "Timeout", "not_before": 4550, "not_after": 6300, "complete": 2}))
    # a peer that disconnects in the middle of a message does not keep the server busy: the idle timeout still fires
    half = hx(enc(make("ok", "-", 1)) + enc(make("ok", "-", 2))[:25])
    sc.append(("idle1_peer_leaves_mid_message", 1, None, 1, 4, ["100:50:" + half], {"ret": "Timeout", "not_before": 1100, "not_after": 3000, "complete": 0}))
    sc.append(("stop_peer_leaves_mid_message", 0, 700, 1, 4, ["100:50:" + half], {"ret": "ok", "not_before": 690, "not_after": 1400, "complete": 0}))
    if not quick:
        for i in range(12):
            at = rng.randint(50, 900)
            hold = rng.randint(50, 1500)
            sc.append(("rand%d" % i, 1, None, rng.randint(1, 2), rng.randint(1, 3), ["%d:%d:%s" % (at, hold, ok_req)],
                       {"ret": "Timeout", "not_before": max(at + hold, at + 950), "not_after": at + hold + 2400, "complete": 1}))
    lines = []
    for i, (name, idle, stop, ini, mx, hist, exp) in enumerate(sc):
        lines.append("c%d listen_run %d %s %d %d %s | %s" % (i, idle, "none" if stop is None else stop, ini, mx, svc.tokens(), " ".join(hist)))
    ntr = 8 if quick else 24
    lines.append("race stoprace %d %s | %s" % (ntr, svc.tokens(), ok_req))
    res = run_lines(harness_bin("h_service"), lines, shards=len(lines), timeout=300,
                    env=dict(ENV, VH_TMP=os.path.join(BUILD, "tmp")))
    # a connection made right after the stop flag was set (while the accept loop sits in its poll) is accepted by the
    # loop as written and must then be served to completion before listen() returns. Trials in which the connection was
    # late (load) or refused are inconclusive and dropped; the verdict needs at least four conclusive trials and fails
    # only if fewer than half of them were served (a single trial can legitimately lose the race with the poll timeout).
    rr = fields(res.get("race", ""))
    ck.case("stoprace")
    ck.count("stoprace_trials", ntr)
    if "conclusive" in rr:
        conc, srv = int(rr["conclusive"]), int(rr["served"])
        ck.extra["stoprace"] = {"trials": ntr, "conclusive": conc, "served": srv}
        if conc >= 4 and srv * 2 < conc:
            ck.failures.append({"what": "listen() returned Ok although a connection made right after the stop flag was set (established before listen "
                                        "returned) got no reply, in %d of %d conclusive trials" % (conc - srv, conc),
                                "request_hex": ok_req, "per_trial (us after the flag / reply bytes)": rr.get("notes")})
    else:
        ck.tie_broken.append("stoprace run failed: " + res.get("race", "")[:200])
    for i, (name, idle, stop, ini, mx, hist, exp) in enumerate(sc):
        r = res["c%d" % i]
        ck.case(name, nontrivial=bool(hist) or stop is not None,
                sample={"scenario": name, "idle_timeout_s": idle, "stop_flag_set_at_ms": stop, "history": [h[:40] for h in hist], "observed": r[:120]} if len(ck.samples) < 6 else None)
        ck.count("scenario")
        f = fields(r)
        if "ret" not in f or "@" not in f["ret"]:
            ck.failures.append({"what": "listen run failed", "scenario": name, "result": r[:300]})
            continue
        kind, t = f["ret"].split("@")
        t = int(t)
        desc = {"scenario": name, "idle_timeout_s": idle, "stop_flag_set_at_ms": stop, "workers": [ini, mx], "history": hist, "returned": f["ret"]}
        if kind != exp["ret"]:
            ck.failures.append(dict(desc, what="listen returned %s, expected %s" % (kind, exp["ret"])))
            continue
        if "not_before" in exp and t < exp["not_before"]:
            ck.failures.append(dict(desc, what="listen returned too early (before the idle period elapsed / while a connection was still being served / before the flag was set)",
                                    not_before_ms=exp["not_before"]))
        if "not_after" in exp and t > exp["not_after"]:
            ck.failures.append(dict(desc, what="listen did not return promptly (stop flag not honoured / idle timeout overdue)", not_after_ms=exp["not_after"]))
        if f.get("sock_exists") != "0":
            ck.failures.append(dict(desc, what="the filesystem socket was not removed"))
        conns = [] if f["conns"] == "-" else f["conns"].split(";")
        for cstr in conns:
            if cstr.startswith("conn@"):
                p = cstr.split(":")
                closed_at = int(p[1].split("@")[1])
                out = unhx(p[2])
                nrep = len(out.split(b"\0")) - 1
                want = exp.get("complete", 1)
                if name == "stop_inflight_stream":
                    want = 3
                else:
                    want = 1
                if nrep != want or (out and not out.endswith(b"\0")):
                    ck.failures.append(dict(desc, what="a reply on a connection open when listen returned was truncated or missing", replies=nrep, expected=want))
                if t + 50 < closed_at - 200 and kind == "Timeout":
                    ck.failures.append(dict(desc, what="listen returned before an accepted connection was served to completion", conn_closed_at=closed_at))
    # model agreement on the abstract traces of some scenarios
    if model_ok:
        ml = ["m0 listen_model 1 0 t00", "m1 listen_model 1 1 " + " ".join(["t00"] * 10), "m2 listen_model 0 1 t00 t00 t10",
              "m3 listen_model 0 1 a1 a1 a1", "m4 listen_model 1 0 t01 t00", "m5 listen_model 2 1 " + " ".join(["t00"] * 19) + " t01 " + " ".join(["t00"] * 20),
              "m6 listen_model 1 1 " + " ".join(["t00"] * 9) + " a0 " + " ".join(["t00"] * 10)]
        mr = run_lines(DRIVER, ml)
        want = {"m0": "res=timeout accepted=0 consumed=1", "m1": "res=timeout accepted=0 consumed=10", "m2": "res=stopped accepted=0 consumed=3",
                "m3": "res=stopped accepted=0 consumed=1", "m4": "res=timeout accepted=0 consumed=2",
                "m5": "res=timeout accepted=0 consumed=40", "m6": "res=timeout accepted=1 consumed=20"}
        for k, v in want.items():
            ck.case("model" + k)
            if mr.get(k) != v:
                ck.tie_broken.append("accept-loop model (regenerated constants) disagrees with the documented behaviour on trace %s: %s (expected %s)" % (k, mr.get(k), v))


def c13(ck):
    rng = random.Random(ck.seed)
    quick = ck.quick
    model_ok, ok = prep(ck, "C13.v", ("h_service",), ())
    if not ok:
        return
    svc = DEFAULT_SVC
    ck.rule = ("2..%d concurrent clients on unix sockets against one varlink::listen server, each pipelining a random request sequence tagged with a unique token, "
               "random segmentation and inter-write delays, beside idle peers, peers that send nothing, peers that stop mid-message; each client's reply stream must equal "
               "the model's prediction for its own sequence; non-trivial = at least two normal clients; distinct by (client count, sequences)") % (16 if quick else 64)
    lines, meta = [], {}
    kinds_ok = [k for k in kinds() if k != "upgrade"]
    for n in range(10 if quick else 80):
        nclients = rng.choice([2, 3, 5, 8, 16] if quick else [2, 3, 5, 8, 16, 32, 64])
        conns, specs = [], []
        for c in range(nclients):
            r = rng.random()
            if r < 0.7:
                L = rng.randint(1, 8)
                seq = [(rng.choice(kinds_ok), rng.choice(list(ALL_FLAGS))) for _ in range(L)]
                reqs = [make(k, f, {"client": "%d-%d" % (n, c), "i": i}) for i, (k, f) in enumerate(seq)]
                s = stream_of(reqs)
                cuts = sorted(rng.sample(range(1, len(s)), min(rng.randint(0, 5), len(s) - 1)))
                chunks = cuts_to_chunks(s, cuts)
                conns.append("normal:%d:%s" % (rng.choice([0, 0, 200, 2000]), ",".join(hx(x) for x in chunks)))
                specs.append(("normal", s))
            elif r < 0.8:
                conns.append("idle:0:")
                specs.append(("idle", b""))
            elif r < 0.9:
                conns.append("midmsg:0:" + hx(b'{"method":"org.example.a.Run","param'))
                specs.append(("midmsg", b""))
            else:
                conns.append("silent:0:" + hx(b'{"method":"org.exa'))
                specs.append(("silent", b""))
        cid = "x%d" % n
        lines.append("%s par 100 %s | %s" % (cid, svc.tokens(), " ".join(conns)))
        meta[cid] = specs
    impl = run_lines(harness_bin("h_service"), lines, shards=4, timeout=900)
    # model prediction per normal client
    ml, mids = [], {}
    for cid, specs in meta.items():
        for j, (k, s) in enumerate(specs):
            if k == "normal":
                mid = "%s_%d" % (cid, j)
                ml.append("%s spec %s | %s" % (mid, svc.tokens(), hx(s)))
                mids[mid] = s
    model = run_lines(DRIVER, ml, shards=8) if model_ok else {}
    alone = run_lines(harness_bin("h_service"), [l.replace(" spec ", " feed ", 1) for l in ml], shards=8)
    for cid, specs in meta.items():
        nn = sum(1 for k, _ in specs if k == "normal")
        ck.case(lines[int(cid[1:])][:2000], nontrivial=nn >= 2,
                sample={"clients": [k for k, _ in specs]} if len(ck.samples) < 4 else None)
        ck.count("clients=%d" % len(specs))
        r = impl[cid]
        f = fields(r)
        if "outs" not in f:
            ck.failures.append({"what": "concurrent run failed", "result": r[:300]})
            continue
        outs = f["outs"].split(";")
        for j, (k, s) in enumerate(specs):
            if k != "normal":
                continue
            o, to = outs[j].split("/")
            got = unhx(o)
            mid = "%s_%d" % (cid, j)
            if to == "1":
                ck.failures.append({"what": "a connection was blocked (no EOF within 10 s) while other peers were idle or misbehaving",
                                    "clients": [x for x, _ in specs], "client": j})
                continue
            want_alone = unhx(fields(alone[mid]).get("out", "-"))
            if canon_reply_stream(got) != canon_reply_stream(want_alone):
                ck.failures.append({"what": "a client did not receive exactly the replies to its own requests in its own order while other connections were active",
                                    "clients": [x for x, _ in specs], "client": j, "stream_hex": s.hex()[:1500],
                                    "got": got.decode("utf-8", "replace")[:600], "expected": want_alone.decode("utf-8", "replace")[:600]})
            if mid in model and canon_reply_stream(unhx(fields(model[mid]).get("out", "-"))) != canon_reply_stream(got):
                ck.tie_broken.append("model/implementation disagree for a concurrent client: stream %s" % s.hex()[:300])
    # one peer sends deeply nested (legal) parameters while others talk, against the unoptimised build of the server (largest
    # stack frames): its neighbours still get their own replies
    okd, logd = build_harness(["h_service"], profile="deep")
    if okd:
        dl, dmeta = [], {}
        for n, depth in enumerate((60, 100, 120)):
            nested = 1
            for _ in range(depth):
                nested = [nested]
            streams = [stream_of([make("ok", "-", {"client": "deep-%d-%d" % (n, c), "i": i}) for i in range(3)]) for c in range(3)]
            streams.insert(1, stream_of([make("ok", "-", {"client": "nested", "v": nested})]))
            dl.append("d%d par 100 %s | %s" % (n, svc.tokens(), " ".join("normal:%d:%s" % (200 if j != 1 else 20000, hx(x)) for j, x in enumerate(streams))))
            dmeta["d%d" % n] = (depth, streams)
        dres = run_lines(harness_bin("h_service", profile="deep"), dl, shards=len(dl), timeout=300)
        al = run_lines(harness_bin("h_service"), ["%s_%d feed %s | %s" % (cid, j, svc.tokens(), hx(x)) for cid, (d_, ss) in dmeta.items() for j, x in enumerate(ss)], shards=4)
        for cid, (depth, streams) in dmeta.items():
            ck.case("nested-neighbour|%d" % depth)
            ck.count("nested_neighbour_unoptimised")
            f = fields(dres.get(cid, ""))
            if "outs" not in f:
                ck.failures.append({"what": "the server died / the run failed while one peer sent %d-fold nested parameters beside three ordinary clients (unoptimised build)" % depth,
                                    "result": dres.get(cid, "")[:200]})
                continue
            for j, x in enumerate(streams):
                o, to = f["outs"].split(";")[j].split("/")
                want = unhx(fields(al["%s_%d" % (cid, j)]).get("out", "-"))
                if to == "1" or canon_reply_stream(unhx(o)) != canon_reply_stream(want):
                    ck.failures.append({"what": "a client did not receive its own replies while a neighbour sent deeply nested parameters (unoptimised build)",
                                        "nesting": depth, "client": j, "got": unhx(o).decode("utf-8", "replace")[:300]})
    from check_service import c13_reference_multiplex, c13_reference_service
    c13_reference_multiplex(ck)
    c13_reference_service(ck)


CHECKS = {"C13": c13, "C14": c14, "C15": c15}
