"""C08 dynamic tie: IDLs as Python structures, their text, type-directed value generation, and
the Rust driver (server implementation + client calls) compiled against the module the real
generator emits."""
import json

# types: ("bool",) ("int",) ("float",) ("string",) ("object",) ("name", N) ("struct", [(f, t)...]) ("enum", [..])
#        ("array", t) ("dict", t) ("set",) ("option", t)


def ty_text(t):
    k = t[0]
    if k in ("bool", "int", "float", "string", "object"):
        return k
    if k == "name":
        return t[1]
    if k == "struct":
        return "(" + ", ".join("%s: %s" % (f, ty_text(ft)) for f, ft in t[1]) + ")"
    if k == "enum":
        return "(" + ", ".join(t[1]) + ")"
    if k == "array":
        return "[]" + ty_text(t[1])
    if k == "dict":
        return "[string]" + ty_text(t[1])
    if k == "set":
        return "[string]()"
    if k == "option":
        return "?" + ty_text(t[1])
    raise ValueError(t)


STRS = ["", "a", "é", "日本", "q\"uote", "back\\slash", "line\nbreak", "tab\t", "\u0001", "😀", "x" * 30]
INTS = [0, 1, -1, 42, 2 ** 31, -2 ** 31, 2 ** 63 - 1, -2 ** 63]
FLOATS = [0.5, -1.25, 1e10, 3.0e-5, 123456.789, 2.0]
OBJS = [None, True, 7, "s", [], {}, [1, "x", None], {"k": {"n": [1, 2]}}, 1.5]


def gen_value(rng, t, env, depth=3):
    k = t[0]
    if k == "bool":
        return rng.choice([True, False])
    if k == "int":
        return rng.choice(INTS)
    if k == "float":
        return rng.choice(FLOATS)
    if k == "string":
        return rng.choice(STRS)
    if k == "object":
        return rng.choice(OBJS)
    if k == "name":
        return gen_value(rng, env[t[1]], env, depth)
    if k == "struct":
        return {f: gen_value(rng, ft, env, depth - 1) for f, ft in t[1]}
    if k == "enum":
        return rng.choice(t[1])
    if k == "array":
        return [gen_value(rng, t[1], env, depth - 1) for _ in range(rng.choice([0, 1, 2, 3]) if depth > 0 else 0)]
    if k == "dict":
        keys = rng.sample(STRS, rng.choice([0, 1, 2, 3]) if depth > 0 else 0)
        return {kk: gen_value(rng, t[1], env, depth - 1) for kk in keys}
    if k == "set":
        return {kk: {} for kk in rng.sample(STRS, rng.choice([0, 1, 3]))}
    if k == "option":
        if rng.random() < 0.4 or depth <= 0:
            return None
        v = gen_value(rng, t[1], env, depth - 1)
        return v
    raise ValueError(t)


def well_typed(t, j, env):
    """is the JSON value j a legal wire value of IDL type t? (strictly: what the IDL says; serde's leniencies such as a
    sequence for a struct are NOT counted as well typed, so they are simply never used as ill-typed probes either -
    see probe_ok)"""
    k = t[0]
    if k == "bool":
        return isinstance(j, bool)
    if k == "int":
        return isinstance(j, int) and not isinstance(j, bool)
    if k == "float":
        return isinstance(j, (int, float)) and not isinstance(j, bool)
    if k == "string":
        return isinstance(j, str)
    if k == "object":
        return True
    if k == "name":
        return well_typed(env[t[1]], j, env)
    if k == "struct":
        return isinstance(j, dict) and all(
            (f in j and well_typed(ft, j[f], env)) or (ft[0] == "option" and (f not in j or j[f] is None)) for f, ft in t[1])
    if k == "enum":
        return isinstance(j, str) and j in t[1]
    if k == "array":
        return isinstance(j, list) and all(well_typed(t[1], x, env) for x in j)
    if k == "dict":
        return isinstance(j, dict) and all(well_typed(t[1], x, env) for x in j.values())
    if k == "set":
        return isinstance(j, dict) and all(x == {} for x in j.values())
    if k == "option":
        return j is None or well_typed(t[1], j, env)
    raise ValueError(t)


def contains_lenient(t, env, seen=()):
    """types for which serde accepts more than the IDL shape (struct from a sequence, any number for float, set
    elements with arbitrary values): ill-typed probes built from lists/numbers are ambiguous there"""
    k = t[0]
    if k in ("struct", "set", "float"):
        return True
    if k == "name":
        return t[1] in seen or contains_lenient(env[t[1]], env, seen + (t[1],))
    if k in ("array", "dict", "option"):
        return contains_lenient(t[1], env, seen)
    return False


def expected_wire(t, v, env, top=False):
    """the JSON the property demands for value v of type t (top: a parameter struct member list,
    where unset optionals may be omitted or null - we canonicalise to omitted)"""
    k = t[0]
    if k == "name":
        return expected_wire(env[t[1]], v, env)
    if k == "struct":
        out = {}
        for f, ft in t[1]:
            x = v.get(f)
            if ft[0] == "option" and x is None:
                continue
            out[f] = expected_wire(ft, x, env)
        return out
    if k == "array":
        return [expected_wire(t[1], x, env) for x in v]
    if k == "dict":
        return {kk: expected_wire(t[1], x, env) for kk, x in v.items()}
    if k == "option":
        return None if v is None else expected_wire(t[1], v, env)
    return v


def drop_nulls(t, j, env):
    """canonical form for comparison: optional members that are null are dropped everywhere"""
    k = t[0]
    if k == "name":
        return drop_nulls(env[t[1]], j, env)
    if k == "struct" and isinstance(j, dict):
        out = {}
        for f, ft in t[1]:
            if f not in j:
                continue
            if ft[0] == "option" and j[f] is None:
                continue
            out[f] = drop_nulls(ft, j[f], env)
        return out
    if k == "array" and isinstance(j, list):
        return [drop_nulls(t[1], x, env) for x in j]
    if k == "dict" and isinstance(j, dict):
        return {kk: drop_nulls(t[1], x, env) for kk, x in j.items()}
    if k == "option":
        return None if j is None else drop_nulls(t[1], j, env)
    return j


class Corpus:
    """one interface: typedefs, echo methods (one per type), failing methods with declared errors"""

    def __init__(self, iface, typedefs, echo_types, multi=None, err_names=None):
        self.err_names = err_names or []    # names of the declared errors (default Err<i>)
        self.iface = iface
        self.typedefs = typedefs            # list of (name, type)
        self.env = dict(typedefs)
        self.echo = echo_types              # list of types: method Echo<i>(v: t) -> (v: t)
        self.multi = multi or []            # list of field lists: method Multi<i>(fields) -> (fields)
        # errors only over named / plain types (anonymous types in error parameters are a known defect)
        self.err_types = [t for t in echo_types if not has_anon(t)]

    def err_name(self, i):
        return self.err_names[i] if i < len(self.err_names) else "Err%d" % i

    def text(self):
        out = ["interface " + self.iface]
        for n, t in self.typedefs:
            out.append("type %s %s" % (n, ty_text(t)))
        for i, t in enumerate(self.echo):
            out.append("method Echo%d(v: %s) -> (v: %s)" % (i, ty_text(t), ty_text(t)))
        for i, fs in enumerate(self.multi):
            s = ", ".join("%s: %s" % (f, ty_text(t)) for f, t in fs)
            out.append("method Multi%d(%s) -> (%s)" % (i, s, s))
        for i, t in enumerate(self.err_types):
            out.append("method Fail%d(v: %s) -> ()" % (i, ty_text(t)))
            out.append("error %s (v: %s)" % (self.err_name(i), ty_text(t)))
        return "\n".join(out) + "\n"


def has_anon(t):
    k = t[0]
    if k in ("struct", "enum"):
        return True
    if k in ("array", "dict", "option"):
        return has_anon(t[1])
    return False


def rust_type(j, mod):
    if isinstance(j, str):
        return {"StringHashSet": "varlink::StringHashSet"}.get(j, j)
    (k, v), = j.items()
    if k == "named":
        return "%s::r#%s" % (mod, v) if False else "%s::%s" % (mod, v)
    if k == "Vec":
        return "Vec<%s>" % rust_type(v, mod)
    if k == "Option":
        return "Option<%s>" % rust_type(v, mod)
    if k == "StringHashMap":
        return "varlink::StringHashMap<%s>" % rust_type(v, mod)
    raise ValueError(j)


def snake(name):
    out = ""
    last_upper = False
    for ch in name:
        if out and ch.isupper() and not last_upper:
            out += "_"
        last_upper = ch.isupper()
        out += ch.lower()
    return out


def driver_main(corpora, defs_by_mod):
    """Rust source of the driver binary. corpora: list of (mod, Corpus); defs_by_mod: mod -> model defs (list of dicts)"""
    src = ["""#![allow(warnings)]
use std::io::{BufRead, BufReader, Read, Write};
use std::os::unix::net::UnixStream;
use std::sync::{Arc, Mutex, RwLock};
use serde_json::{json, Value};
use varlink::{Connection, ConnectionHandler, VarlinkService};

static SEEN: Mutex<Vec<Value>> = Mutex::new(Vec::new());
fn seen(v: Value) { SEEN.lock().unwrap().push(v); }

fn hex(b: &[u8]) -> String { if b.is_empty() { return "-".into(); } b.iter().map(|x| format!("{:02x}", x)).collect() }
fn conv<A: serde::Serialize, B: serde::de::DeserializeOwned>(a: &A) -> B { serde_json::from_value(serde_json::to_value(a).unwrap()).unwrap() }
fn unhex(s: &str) -> Vec<u8> { if s == "-" { return vec![]; } (0..s.len()/2).map(|i| u8::from_str_radix(&s[2*i..2*i+2], 16).unwrap()).collect() }
"""]
    for mod, c in corpora:
        src.append("mod %s;" % mod)
    for mod, c in corpora:
        defs = {d["name"]: d for d in defs_by_mod[mod]}
        src.append("struct Impl_%s;" % mod)
        src.append("impl %s::VarlinkInterface for Impl_%s {" % (mod, mod))

        def params(mname):
            fs = defs[mname + "_Args"]["struct"]
            return fs
        for i, t in enumerate(c.echo):
            m = "Echo%d" % i
            fs = params(m)
            src.append("  fn %s(&self, call: &mut dyn %s::Call_%s, %s) -> varlink::Result<()> { seen(json!({%s})); call.reply(%s) }" % (
                snake(m), mod, m, ", ".join("r#%s: %s" % (f["name"], rust_type(f["type"], mod)) for f in fs),
                ", ".join('"%s": serde_json::to_value(&r#%s).unwrap()' % (f["name"], f["name"]) for f in fs),
                ", ".join("conv(&r#%s)" % f["name"] for f in fs)))
        for i, fl in enumerate(c.multi):
            m = "Multi%d" % i
            fs = params(m)
            src.append("  fn %s(&self, call: &mut dyn %s::Call_%s, %s) -> varlink::Result<()> { seen(json!({%s})); call.reply(%s) }" % (
                snake(m), mod, m, ", ".join("r#%s: %s" % (f["name"], rust_type(f["type"], mod)) for f in fs),
                ", ".join('"%s": serde_json::to_value(&r#%s).unwrap()' % (f["name"], f["name"]) for f in fs),
                ", ".join("conv(&r#%s)" % f["name"] for f in fs)))
        for i, t in enumerate(c.err_types):
            m = "Fail%d" % i
            fs = params(m)
            src.append("  fn %s(&self, call: &mut dyn %s::Call_%s, %s) -> varlink::Result<()> { seen(json!({%s})); %s::VarlinkCallError::reply_%s(call, %s) }" % (
                snake(m), mod, m, ", ".join("r#%s: %s" % (f["name"], rust_type(f["type"], mod)) for f in fs),
                ", ".join('"%s": serde_json::to_value(&r#%s).unwrap()' % (f["name"], f["name"]) for f in fs),
                mod, snake(c.err_name(i)), ", ".join("r#%s" % f["name"] for f in fs)))
        src.append("}")
    # the client side: one function per (mod, method)
    src.append("fn client_call(conn: Arc<RwLock<Connection>>, modname: &str, method: &str, mode: &str, args: Value) -> String {")
    src.append("  match (modname, method) {")
    for mod, c in corpora:
        defs = {d["name"]: d for d in defs_by_mod[mod]}
        names = ["Echo%d" % i for i in range(len(c.echo))] + ["Multi%d" % i for i in range(len(c.multi))] + ["Fail%d" % i for i in range(len(c.err_types))]
        for m in names:
            fs = defs[m + "_Args"]["struct"]
            arms = "".join("%s::ErrorKind::%s(Some(a)) => format!(\"err:Err%d:{}\", hex(serde_json::to_string(a).unwrap().as_bytes())), " % (mod, c.err_name(i), i)
                           for i in range(len(c.err_types)))
            src.append("""    ("%s", "%s") => {
      use %s::VarlinkClientInterface;
      let a: %s::%s_Args = match serde_json::from_value(args) { Ok(a) => a, Err(e) => return format!("badargs:{}", e) };
      let mut cl = %s::VarlinkClient::new(conn);
      let mut mc = cl.%s(%s);
      let show = |r: Result<%s::%s_Reply, %s::Error>| -> String { match r {
          Ok(y) => format!("ok:{}", hex(serde_json::to_string(&y).unwrap().as_bytes())),
          Err(e) => match e.kind() { %s other => format!("err:other:{}", hex(format!("{:?}", other).as_bytes())) } } };
      match mode {
        "oneway" => match mc.oneway() { Ok(()) => "unit".to_string(), Err(e) => format!("err:send:{:?}", e.kind()) },
        "more" => match mc.more() { Err(e) => format!("err:send:{:?}", e.kind()), Ok(it) => { let v: Vec<String> = it.map(|x| show(x)).collect(); v.join(";") } },
        _ => show(mc.call()),
      }
    }""" % (mod, m, mod, mod, m, mod, snake(m), ", ".join("a.r#%s" % f["name"] for f in fs), mod, m, mod, arms))
    src.append('    _ => "UNKNOWN-METHOD".to_string(),')
    src.append("  }\n}")
    src.append("""
fn service() -> VarlinkService {
    VarlinkService::new("v", "p", "1", "u", vec![
""" + "".join("        Box::new(%s::new(Box::new(Impl_%s))),\n" % (mod, mod) for mod, c in corpora) + """    ])
}

/// serve one connection on the server end, recording every byte received
fn serve(sock: UnixStream, raw_in: Arc<Mutex<Vec<u8>>>) {
    let svc = service();
    let mut w = sock.try_clone().unwrap();
    struct Rec(UnixStream, Arc<Mutex<Vec<u8>>>);
    impl Read for Rec { fn read(&mut self, b: &mut [u8]) -> std::io::Result<usize> { let n = self.0.read(b)?; self.1.lock().unwrap().extend_from_slice(&b[..n]); Ok(n) } }
    let mut br = BufReader::new(Rec(sock, raw_in));
    loop {
        match svc.handle(&mut br, &mut w, None) {
            Ok(_) => { match br.fill_buf() { Ok(b) if !b.is_empty() => {}, _ => break } }
            Err(_) => break,
        }
    }
    let _ = w.shutdown(std::net::Shutdown::Both);
}

fn main() {
    let stdin = std::io::stdin();
    std::panic::set_hook(Box::new(|_| {}));
    for line in stdin.lock().lines() {
        let line = line.unwrap();
        let t: Vec<&str> = line.split(' ').filter(|x| !x.is_empty()).collect();
        if t.len() < 2 { continue; }
        let id = t[0];
        let res = std::panic::catch_unwind(|| -> String {
            SEEN.lock().unwrap().clear();
            let (c, s) = UnixStream::pair().unwrap();
            let raw_in = Arc::new(Mutex::new(Vec::new()));
            let r2 = raw_in.clone();
            let th = std::thread::spawn(move || serve(s, r2));
            let out = match t[1] {
                "call" => {
                    // call <mod> <method> <mode> <args json hex>
                    let args: Value = serde_json::from_slice(&unhex(t[5])).unwrap();
                    let rd = c.try_clone().unwrap();
                    // record raw reply bytes through a tee on the client side
                    struct Tee(UnixStream, Arc<Mutex<Vec<u8>>>);
                    impl Read for Tee { fn read(&mut self, b: &mut [u8]) -> std::io::Result<usize> { let n = self.0.read(b)?; self.1.lock().unwrap().extend_from_slice(&b[..n]); Ok(n) } }
                    let raw_out = Arc::new(Mutex::new(Vec::new()));
                    let mut conn = Connection::default();
                    conn.reader = Some(BufReader::new(Box::new(Tee(rd, raw_out.clone())) as Box<dyn Read + Send + Sync>));
                    conn.writer = Some(Box::new(c.try_clone().unwrap()) as Box<dyn Write + Send + Sync>);
                    let conn = Arc::new(RwLock::new(conn));
                    let r = client_call(conn.clone(), t[2], t[3], t[4], args);
                    // a oneway call reads nothing: whatever the server wrote for it is still in the socket
                    let mut unread: Vec<u8> = Vec::new();
                    if t[4] == "oneway" {
                        let mut probe = c.try_clone().unwrap();
                        let _ = probe.set_read_timeout(Some(std::time::Duration::from_millis(60)));
                        let mut b = [0u8; 4096];
                        loop { match probe.read(&mut b) { Ok(n) if n > 0 => unread.extend_from_slice(&b[..n]), _ => break } }
                        let _ = probe.set_read_timeout(None);
                    }
                    drop(conn);
                    let _ = c.shutdown(std::net::Shutdown::Both);
                    let _ = th.join();
                    let mut ro = raw_out.lock().unwrap().clone();
                    ro.extend_from_slice(&unread);
                    format!("res={} raw_reply={}", r, hex(&ro))
                }
                "raw" => {
                    let mut c2 = c.try_clone().unwrap();
                    c2.write_all(&unhex(t[2])).unwrap();
                    let _ = c2.shutdown(std::net::Shutdown::Write);
                    let mut out = Vec::new();
                    let _ = c2.read_to_end(&mut out);
                    let _ = th.join();
                    format!("res=raw raw_reply={}", hex(&out))
                }
                _ => "UNKNOWN-OP".to_string(),
            };
            let seen_v = SEEN.lock().unwrap().clone();
            let ri = raw_in.lock().unwrap().clone();
            format!("{} req={} seen={}", out, hex(&ri), hex(serde_json::to_string(&seen_v).unwrap().as_bytes()))
        });
        println!("{} {}", id, res.unwrap_or("PANIC".into()));
    }
}
""")
    return "\n".join(src)
